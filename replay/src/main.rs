//! Native replay of a solver counterexample: the same harness function, compiled as an ordinary
//! program against /repo (guard on), with kani::any() returning the recorded values.
//! exit 0 = harness completed (not reproduced), 1 = assertion failed / panic (reproduced),
//! 3 = an assumption failed or the recorded values ran out (encoder and native run diverged).
use std::panic;

fn dispatch(name: &str) {
    match name {
        // @ARMS@
        _ => {
            eprintln!("unknown harness {}", name);
            std::process::exit(3);
        }
    }
}

fn parse_values(txt: &str) -> (String, Vec<Vec<u8>>) {
    // minimal JSON reader for {"harness": "...", ..., "values": [[1,2],[3]], ...}
    let h = {
        let i = txt.find("\"harness\"").expect("harness key");
        let rest = &txt[i + 9..];
        let a = rest.find('"').unwrap();
        let b = rest[a + 1..].find('"').unwrap();
        rest[a + 1..a + 1 + b].to_string()
    };
    let i = txt.find("\"values\"").expect("values key");
    let rest = &txt[i + 8..];
    let start = rest.find('[').unwrap();
    let mut depth = 0;
    let mut vals: Vec<Vec<u8>> = Vec::new();
    let mut cur: Vec<u8> = Vec::new();
    let mut num = String::new();
    for ch in rest[start..].chars() {
        match ch {
            '[' => {
                depth += 1;
                if depth == 2 {
                    cur = Vec::new();
                }
            }
            ']' => {
                if !num.is_empty() {
                    cur.push(num.parse::<u16>().unwrap() as u8);
                    num.clear();
                }
                if depth == 2 {
                    vals.push(cur.clone());
                }
                depth -= 1;
                if depth == 0 {
                    break;
                }
            }
            ',' => {
                if !num.is_empty() {
                    cur.push(num.parse::<u16>().unwrap() as u8);
                    num.clear();
                }
            }
            c if c.is_ascii_digit() => num.push(c),
            _ => {}
        }
    }
    (h, vals)
}

/// `mq2_replay --e2 <function> <u64>...`: evaluate one of the real integer kernels natively
/// (used to validate the MIR->SMT translation and to replay E2 counterexamples).
fn e2(args: &[String]) {
    use multiqueue2::verif_hooks as vh;
    use std::sync::atomic::Ordering::Relaxed;
    let f = args[0].as_str();
    let v: Vec<u64> = args[1..].iter().map(|a| a.parse::<u64>().expect("u64 argument")).collect();
    let r = panic::catch_unwind(|| match f {
        "get_valid_wrap" => format!("{}", vh::get_valid_wrap(v[0])),
        "past" => {
            let (d, t) = vh::past(v[0] as usize, v[1] as usize);
            format!("{} {}", d, t as u8)
        }
        "rm_tag" => format!("{} {}", vh::rm_tag(v[0] as usize), vh::is_tagged(v[0] as usize) as u8),
        "matches_previous" => {
            // h n t
            let ci = vh::CountedIndex::from_usize(v[0] as usize, v[1]);
            format!("{}", ci.load_transaction(Relaxed).matches_previous(v[2] as usize) as u8)
        }
        "get" => {
            let ci = vh::CountedIndex::from_usize(v[0] as usize, v[1]);
            let (i, t) = ci.load_transaction(Relaxed).get();
            format!("{} {}", i as u64, t)
        }
        "prev_matches" => {
            // count d n
            let prev = vh::CountedIndex::get_previous(v[0] as usize, v[1]);
            let ci = vh::CountedIndex::from_usize(v[0] as usize, v[2]);
            format!("{} {}", prev, ci.load_transaction(Relaxed).matches_previous(prev) as u8)
        }
        "check" => {
            let at = vh::AtomicUsize::new(v[1] as usize);
            let wc = vh::AtomicUsize::new(v[2] as usize);
            format!("{}", vh::wait_check(v[0] as usize, &at, &wc) as u8)
        }
        _ => "unknown-function".to_string(),
    });
    match r {
        Ok(s) => println!("E2 {}", s),
        Err(_) => println!("E2 PANIC"),
    }
}

fn main() {
    let argv: Vec<String> = std::env::args().collect();
    if argv.len() > 2 && argv[1] == "--e2" {
        e2(&argv[2..]);
        return;
    }
    let path = std::env::args().nth(1).expect("usage: mq2_replay <replay.json>");
    let txt = std::fs::read_to_string(&path).expect("read replay file");
    let (harness, values) = parse_values(&txt);
    let n = values.len();
    kani::load(values);
    let r = panic::catch_unwind(|| dispatch(&harness));
    let (next, exhausted) = {
        let s = kani::STATE.lock().unwrap_or_else(|e| e.into_inner());
        (s.next, s.exhausted)
    };
    match r {
        Ok(()) => {
            println!("REPLAY harness={} completed without failure (used {}/{} values)", harness, next, n);
            std::process::exit(0);
        }
        Err(e) => {
            let msg = if let Some(s) = e.downcast_ref::<String>() {
                s.clone()
            } else if let Some(s) = e.downcast_ref::<&str>() {
                s.to_string()
            } else {
                "panic".to_string()
            };
            if msg.contains(kani::ASSUME_MARKER) || exhausted {
                println!("REPLAY harness={} diverged: {} (used {}/{} values, exhausted={})", harness, msg, next, n, exhausted);
                std::process::exit(3);
            }
            mq2_harness::ledger::dump();
            println!("REPLAY harness={} FAILED: {} (used {}/{} values)", harness, msg, next, n);
            std::process::exit(1);
        }
    }
}
