#![allow(clippy::all)]
#![allow(static_mut_refs)]
#[cfg(kani)]
extern crate kani;

pub mod allocs;
pub mod finish;
pub mod fl;
pub mod ledger;
pub mod payload;
pub mod sched;
pub mod world;

pub mod scen_traffic;
pub mod scen_life;
pub mod scen_wait;
pub mod scen_seq;
pub mod scen_fut;
pub mod scen_mem;
