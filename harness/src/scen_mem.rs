//! C16 (deferred reclamation is memory safe) and C17 (memory is returned / bounded), with the
//! REAL memory manager: nothing of /repo/src/memory.rs is stubbed in these harnesses.
//! Oracles: CBMC's pointer checks on every access of the real code (use after free, double free,
//! out of bounds) and the allocation counters fed by the guarded hook in /repo/src/alloc.rs.

use crate::allocs::al;
use crate::fl::*;
use crate::payload;
use crate::scen_life::Idle;
use crate::sched;
use crate::world::*;

/// Whole-queue teardown with the real manager: build, (optionally) send/receive, add a stream,
/// clone handles, then drop everything in a solver-chosen order; afterwards every allocation made
/// through `alloc::allocate` must have been returned.
pub fn teardown_real<F: Fl, const SENDERS_FIRST: bool, const RX0_FIRST: bool>(cap: u64, with_stream: bool, with_clone: bool) {
    payload::reset();
    sched::configure(0, 0, 0, 0);
    let a0 = al().live;
    {
        let mut w = World::<F>::new(cap);
        set_world::<F>(&mut *w);
        if with_stream {
            w.rx[1] = Some(F::add_stream(w.rx[0].as_ref().unwrap()));
        }
        if with_clone {
            w.rx[2] = Some(F::clone_rx(w.rx[0].as_ref().unwrap()));
            w.tx[1] = Some(F::clone_tx(w.tx[0].as_ref().unwrap()));
        }
        let queued: bool = kani::any();
        if queued {
            let _ = F::try_send(w.tx[0].as_ref().unwrap(), F::P::mk(1));
        }
        // the teardown order is a harness parameter (a symbolic order makes the Arc count symbolic)
        if SENDERS_FIRST {
            drop(w.tx[0].take());
            drop(w.tx[1].take());
        }
        drop(w.rx[2].take());
        if RX0_FIRST {
            drop(w.rx[0].take());
            drop(w.rx[1].take());
        } else {
            drop(w.rx[1].take());
            drop(w.rx[0].take());
        }
        drop(w.tx[1].take());
        drop(w.tx[0].take());
        kani::cover!(queued, "teardown with a value queued");
    }
    assert!(
        al().live == a0,
        "C17: memory allocated by the queue was not released when the last handle was dropped"
    );
}

pub type MpB = MpmcPlain<u8, Busy>;
pub type BcB = BcastPlain<u8, Busy>;

crate::mq_harness_real!(c17_teardown_mp, hk_c17_teardown_mp, Idle, teardown_real::<MpB, false, true>(2, false, false));
crate::mq_harness_real!(c17_teardown_bc_stream, hk_c17_teardown_bc_stream, Idle, teardown_real::<BcB, true, false>(2, true, false));
crate::mq_harness_real!(c17_teardown_bc_clone, hk_c17_teardown_bc_clone, Idle, teardown_real::<BcB, false, true>(1, false, true));

// ==========================================================================================
// C16 unit level: the real MemoryManager and the real ReadCursor driven directly, in the pattern
// the queue uses them (announce at the start of an operation iff the epoch bit of the signal word
// is set; writers scan the stream list; consumers add / remove streams, which retires lists and
// positions through `free`).  20 dummy retirements are pre-loaded so that the next one crosses
// the threshold and the reclamation cycle (start_free / try_freeing) really runs.
//
//   actor 0 (writer, token tw): announce; scan = cursor.get_max_diff(..)     (x2)
//   actor 1 (consumer, token tr): announce; r1 = add_stream(r0)  |  announce; remove_reader(r1)
//   idle token ti (IDLE): registered, never announces - nothing may be reclaimed while it exists

use multiqueue2::verif_hooks::{MemToken, MemoryManager, ReadCursor, Reader};
use std::marker::PhantomData;
use std::sync::atomic::Ordering;

pub struct MemWorld {
    pub mgr: MemoryManager,
    pub cursor: ReadCursor,
    pub r0: Reader,
    pub r1: Option<Reader>,
    pub tw: *const MemToken,
    pub tr: *const MemToken,
    pub scans: u8,
}

static mut MEMW: *mut MemWorld = std::ptr::null_mut();

fn mw() -> &'static mut MemWorld {
    unsafe { &mut *MEMW }
}

fn announce(tok: *const MemToken) {
    let w = mw();
    let sig = w.mgr.signal.load(Ordering::Relaxed);
    if sig.get_epoch() {
        w.mgr.update_token(tok);
    }
}

/// VAR 0: writer [scan, scan], consumer [add_stream, remove_reader]
/// VAR 1: writer [scan], consumer [add_stream]
/// VAR 2: writer [scan], consumer [remove_reader]   (the stream was added during set-up)
pub struct MemProg<const IDLE: bool, const THIRD: bool, const VAR: u8>(PhantomData<()>);

impl<const IDLE: bool, const THIRD: bool, const VAR: u8> Prog for MemProg<IDLE, THIRD, VAR> {
    const NACT: usize = if THIRD { 3 } else { 2 };
    const LEN: [u8; MAXACT] = [
        if THIRD || VAR != 0 { 1 } else { 2 },
        if VAR == 0 { 2 } else { 1 },
        if THIRD { 1 } else { 0 },
        0,
    ];
    const BASE: [usize; MAXACT] = [0, 4, 8, 0];
    fn step(a: usize, k: usize) {
        let w = mw();
        match (a, k) {
            // third actor: some other handle retires one more object (e.g. drops a stream elsewhere)
            (2, _) => {
                let p: *mut u64 = Box::into_raw(Box::new(0u64));
                w.mgr.free(p, 1);
            }
            (0, _) => {
                announce(w.tw);
                let d = w.cursor.get_max_diff(0);
                assert!(d.is_some(), "C16: the writer's scan of the stream list failed");
                w.scans += 1;
            }
            (1, 0) if VAR != 2 => {
                announce(w.tr);
                let r = w.cursor.add_stream(&w.r0, &w.mgr);
                w.r1 = Some(r);
            }
            (_, _) => {
                announce(w.tr);
                if let Some(r) = w.r1.take() {
                    let _ = w.cursor.remove_reader(&r, &w.mgr);
                }
            }
        }
    }
}

pub fn reclaim_protocol<const IDLE: bool, const OUTER: usize>(preload: usize, budget: u8) {
    reclaim_protocol_d::<IDLE, false, 0, OUTER>(preload, budget, 1)
}

pub fn reclaim_protocol_d<const IDLE: bool, const THIRD: bool, const VAR: u8, const OUTER: usize>(preload: usize, budget: u8, depth: u8) {
    sched::configure(depth, budget, sched::MEM_KINDS | (1 << sched::K_ALLOC), 2);
    let mgr = MemoryManager::new();
    let (cursor, r0) = ReadCursor::new(2);
    let tw = mgr.get_token();
    let tr = mgr.get_token();
    if IDLE {
        let _ti = mgr.get_token();
    }
    let mut w = MemWorld { mgr, cursor, r0, r1: None, tw, tr, scans: 0 };
    unsafe { MEMW = &mut w };
    if VAR == 2 {
        let r = w.cursor.add_stream(&w.r0, &w.mgr);
        w.r1 = Some(r);
    }
    let frees0 = al().total_frees;
    // pre-load retirements of dummy allocations through the real free()
    let mut i = 0;
    while i < preload {
        let p: *mut u64 = Box::into_raw(Box::new(0u64));
        // Box memory is compatible with alloc::deallocate::<u64>(p, 1) (Vec of capacity 1)
        w.mgr.free(p, 1);
        i += 1;
    }
    run_concurrent::<MemProg<IDLE, THIRD, VAR>, OUTER>();
    kani::cover!(sched::st().injected > 0, "an operation ran at a preemption point");
    // one more quiet round: both tokens announce, a retirement triggers try_freeing
    announce(w.tw);
    announce(w.tr);
    let p: *mut u64 = Box::into_raw(Box::new(0u64));
    w.mgr.free(p, 1);
    let reclaimed = al().total_frees - frees0;
    if IDLE {
        assert!(
            reclaimed <= 1,
            "C16: retired memory was reclaimed although a registered handle never announced the new epoch"
        );
    } else {
        kani::cover!(reclaimed >= preload as u32, "a reclamation cycle freed the retired memory");
    }
    let _ = &w; // ManuallyDrop: never dropped
}

// ------------------------------------------------------------------------------------------
// C16 unit level, two retirements racing: handle A retires an object (outer operation, preempted
// at every shared access, lock and allocation call of MemoryManager::free) while handle B retires
// the object that crosses the threshold (start_free: the waiting list becomes the batch of a NEW
// epoch).  Nobody announces the new epoch in this scenario, so nothing may be deallocated: a
// batch reclaimed here is reclaimed while other handles may still be reading it.
pub struct FreeFree;

impl Prog for FreeFree {
    const NACT: usize = 2;
    const LEN: [u8; MAXACT] = [1, 1, 0, 0];
    const BASE: [usize; MAXACT] = [0, 4, 0, 0];
    fn step(_a: usize, _k: usize) {
        let w = mw();
        let p: *mut u64 = Box::into_raw(Box::new(0u64));
        w.mgr.free(p, 1);
    }
}

pub fn free_vs_free(preload: usize, force_site: u16) {
    // forced-site mode: B's free() runs ALWAYS at the force_site-th site of A's (a solver-chosen site makes the
    // lengths of the manager's vectors symbolic: out of memory after 340 s)
    sched::configure(1, 1, sched::MEM_KINDS | (1 << sched::K_ALLOC), 1);
    sched::force(force_site, 1, [1; 4]);
    let mgr = MemoryManager::new();
    let (cursor, r0) = ReadCursor::new(2);
    let tw = mgr.get_token();
    let tr = mgr.get_token();
    let mut w = MemWorld { mgr, cursor, r0, r1: None, tw, tr, scans: 0 };
    unsafe { MEMW = &mut w };
    let frees0 = al().total_frees;
    let mut i = 0;
    while i < preload {
        let p: *mut u64 = Box::into_raw(Box::new(0u64));
        w.mgr.free(p, 1);
        i += 1;
    }
    run_concurrent::<FreeFree, 0>();
    kani::cover!(sched::st().injected > 0, "an operation ran at a preemption point");
    kani::cover!(w.mgr.signal.load(Ordering::Relaxed).get_epoch(), "the threshold was crossed: a new epoch is pending");
    kani::cover!(sched::st().site_no < force_site, "the forced site lies past the end of the outer operation");
    assert!(
        al().total_frees == frees0,
        "C16: retired memory was reclaimed although no handle had announced the epoch in which it was handed over (other handles may still be reading it)"
    );
    let _ = &w; // ManuallyDrop: never dropped
}

crate::mq_harness_real!(c16_free_vs_free_f1, hk_c16_free_vs_free_f1, Runner<FreeFree, 0>, free_vs_free(20, 1));
crate::mq_harness_real!(c16_free_vs_free_f2, hk_c16_free_vs_free_f2, Runner<FreeFree, 0>, free_vs_free(20, 2));
crate::mq_harness_real!(c16_free_vs_free_f3, hk_c16_free_vs_free_f3, Runner<FreeFree, 0>, free_vs_free(20, 3));
crate::mq_harness_real!(c16_free_vs_free_f4, hk_c16_free_vs_free_f4, Runner<FreeFree, 0>, free_vs_free(20, 4));

crate::mq_harness_real!(c16_protocol_o0, hk_c16_protocol_o0, Runner<MemProg<false, false, 0>, 0>, reclaim_protocol::<false, 0>(20, 2));
crate::mq_harness_real!(c16_protocol_o1, hk_c16_protocol_o1, Runner<MemProg<false, false, 0>, 1>, reclaim_protocol::<false, 1>(20, 2));
crate::mq_harness_real!(c16_protocol_idle_o0, hk_c16_protocol_idle_o0, Runner<MemProg<true, false, 0>, 0>, reclaim_protocol::<true, 0>(20, 2));
crate::mq_harness_real!(c16_protocol_seq, hk_c16_protocol_seq, Runner<MemProg<false, false, 0>, 0>, reclaim_protocol::<false, 0>(20, 0));

// ==========================================================================================
// C17 churn (unit level, real MemoryManager): conservation of retired objects.  Every object
// handed to free() must at any quiescent moment be (a) still waiting in the retire list,
// (b) in the batch of the running reclamation cycle, or (c) deallocated.  A batch that is
// overwritten or forgotten shows up as retired > freed + pending, i.e. memory that grows with
// the number of retirements although every handle keeps announcing.
//   two or three tokens; in every round a solver-chosen subset of them announces (a handle
//   that lags does no operation in that round); ROUNDS x 21 retirements.

pub fn churn_conservation<const ROUNDS: usize, const LAG: u8>() {
    sched::configure(0, 0, 0, 0);
    let mgr = MemoryManager::new();
    let t1 = mgr.get_token();
    let t2 = mgr.get_token();
    let frees0 = al().total_frees;
    let mut retired: u32 = 0;
    let mut lagged = false;
    let mut round = 0;
    while round < ROUNDS {
        // which handles run an operation (and therefore announce) before this round's retirements
        // LAG 0: every handle operates in every round; 1: handle 2 does nothing in round 2 (it lags
        // behind exactly while the first batch waits for it); 2: the solver chooses per round
        let a1: bool = if LAG == 2 { kani::any() } else { true };
        let a2: bool = if LAG == 2 { kani::any() } else { !(LAG == 1 && round == 1) };
        if a1 {
            if mgr.signal.load(Ordering::Relaxed).get_epoch() {
                mgr.update_token(t1);
            }
        }
        if a2 {
            if mgr.signal.load(Ordering::Relaxed).get_epoch() {
                mgr.update_token(t2);
            }
        }
        if !(a1 && a2) {
            lagged = true;
        }
        let mut i = 0;
        while i < 21 {
            let p: *mut u64 = Box::into_raw(Box::new(0u64));
            mgr.free(p, 1);
            retired += 1;
            i += 1;
        }
        let (w, b) = mgr.verif_pending();
        let freed = al().total_frees - frees0;
        assert!(
            retired == freed + w as u32 + b as u32,
            "C17: retired bookkeeping memory was lost (neither freed nor pending): memory grows with churn"
        );
        round += 1;
    }
    // everybody announces; two more retirements complete the running cycle
    mgr.update_token(t1);
    mgr.update_token(t2);
    let p: *mut u64 = Box::into_raw(Box::new(0u64));
    mgr.free(p, 1);
    retired += 1;
    let (w, b) = mgr.verif_pending();
    let freed = al().total_frees - frees0;
    assert!(
        retired == freed + w as u32 + b as u32,
        "C17: retired bookkeeping memory was lost (neither freed nor pending): memory grows with churn"
    );
    assert!(
        (w + b) as u32 <= 42,
        "C17: with every handle announcing, more than two batches of retired memory are still held"
    );
    kani::cover!(LAG == 0 || (lagged && freed >= 21), "a batch was reclaimed although a handle lagged for a round");
    std::mem::forget(mgr);
}


// C17 handle churn as the queue performs it: every cloned-and-dropped handle registers a token
// (get_token) and unregisters it again (remove_token, which RETIRES the token).  Two fixed handles
// stay registered and announce every epoch they see.  ROUNDS x 21 token cycles; the retired tokens
// must be reclaimed as the cycles go on: at most two batches may still be held at the end.
pub fn churn_tokens<const ROUNDS: usize>() {
    sched::configure(0, 0, 0, 0);
    let mgr = MemoryManager::new();
    let t1 = mgr.get_token();
    let t2 = mgr.get_token();
    let frees0 = al().total_frees;
    let mut retired: u32 = 0;
    let mut round = 0;
    while round < ROUNDS {
        if mgr.signal.load(Ordering::Relaxed).get_epoch() {
            mgr.update_token(t1);
        }
        if mgr.signal.load(Ordering::Relaxed).get_epoch() {
            mgr.update_token(t2);
        }
        let mut i = 0;
        while i < 21 {
            let t = mgr.get_token();
            mgr.remove_token(t);
            retired += 1;
            i += 1;
        }
        let (w, b) = mgr.verif_pending();
        let freed = al().total_frees - frees0;
        assert!(
            retired == freed + w as u32 + b as u32,
            "C17: retired bookkeeping memory was lost (neither freed nor pending): memory grows with churn"
        );
        round += 1;
    }
    mgr.update_token(t1);
    mgr.update_token(t2);
    let t = mgr.get_token();
    mgr.remove_token(t);
    retired += 1;
    let (w, b) = mgr.verif_pending();
    let freed = al().total_frees - frees0;
    assert!(
        retired == freed + w as u32 + b as u32,
        "C17: retired bookkeeping memory was lost (neither freed nor pending): memory grows with churn"
    );
    assert!(
        (w + b) as u32 <= 42,
        "C17: with every handle announcing, the tokens retired by handle clone/drop cycles are never reclaimed (more than two batches still held)"
    );
    kani::cover!(freed >= 21, "a batch of retired tokens was reclaimed");
    std::mem::forget(mgr);
}
crate::mq_harness_real!(c17_churn_tokens_r3, hk_c17_churn_tokens_r3, Idle, churn_tokens::<3>());
crate::mq_harness_real!(c17_churn_r2, hk_c17_churn_r2, Idle, churn_conservation::<2, 2>());
crate::mq_harness_real!(c17_churn_r3_nolag, hk_c17_churn_r3_nolag, Idle, churn_conservation::<3, 0>());
crate::mq_harness_real!(c17_churn_r3_lag, hk_c17_churn_r3_lag, Idle, churn_conservation::<3, 1>());
crate::mq_harness_real!(c17_churn_r3, hk_c17_churn_r3, Idle, churn_conservation::<3, 2>());

// ==========================================================================================
// C16 whole queue, REAL memory manager: the last handle of a stream is dropped (outer operation:
// token handling + ReadCursor::remove_reader, which walks the stream list) while, at its
// preemption points, another consumer churns streams so that the list the dropping thread is
// looking at is retired, the reclamation threshold is crossed (19 retirements are pre-loaded),
// every other live handle announces the new epoch and one more retirement runs try_freeing.
//   actor 0: drops rx0 (last handle of stream 0)
//   actor 1: rx2 = rx1.add_stream(); rx1.try_recv(); drop(rx2)
//   actor 2: tx0.try_send(1)
// Oracle: CBMC's pointer checks on every access of the real code.

pub struct WqDrop<F>(PhantomData<F>);

impl<F: Fl> Prog for WqDrop<F> {
    const NACT: usize = 3;
    const LEN: [u8; MAXACT] = [1, 3, 1, 0];
    const BASE: [usize; MAXACT] = [0, 4, 8, 0];
    fn step(a: usize, k: usize) {
        match (a, k) {
            (0, _) => op_drop_rx::<F>(0, 0),
            (1, 0) => op_add_stream::<F>(4, 1, 2, 2),
            (1, 1) => op_recv::<F>(5, 1),
            (1, _) => op_drop_rx::<F>(6, 2),
            (_, _) => op_send::<F>(8, 0, 1),
        }
    }
}

pub fn wholequeue_drop<F: Fl, const OUTER: usize>(preload: usize, budget: u8, kinds: u16) {
    wholequeue_drop_at::<F, OUTER>(preload, budget, kinds, 0)
}

/// `force_site` != 0: forced-site mode (DESIGN.md 4) - at the `force_site`-th window site of the drop ALL four
/// operations of the others run, unconditionally and in the one order that completes a reclamation cycle inside
/// the window: add_stream (retires the list the dropping thread may be holding; 21st retirement -> new epoch),
/// rx1.try_recv (rx1 announces), tx0.try_send (tx0 announces), drop(rx2) (its retirements run try_freeing).
/// Nothing but the payloads is symbolic, so the structural operations stay concrete (DESIGN.md 2, lesson (2)).
pub fn wholequeue_drop_at<F: Fl, const OUTER: usize>(preload: usize, budget: u8, kinds: u16, force_site: u16) {
    crate::ledger::reset();
    payload::reset();
    sched::configure(1, budget, kinds, 4);
    if force_site != 0 {
        sched::force(force_site, 4, [1, 1, 2, 1]);
    }
    let mut w = World::<F>::new(2);
    set_world::<F>(&mut *w);
    w.rx[1] = Some(F::add_stream(w.rx[0].as_ref().unwrap()));
    w.rx_stream[1] = 1;
    F::preload_retirements(w.tx[0].as_ref().unwrap(), preload);
    crate::ledger::declare_other(0, 0);
    crate::ledger::declare_other(4, 1);
    crate::ledger::declare_recv(5, 1, 1);
    crate::ledger::declare_other(6, 1);
    crate::ledger::declare_send(8, 2, 1);
    let frees0 = al().total_frees;
    run_concurrent::<WqDrop<F>, OUTER>();
    kani::cover!(sched::st().injected >= 3, "three operations ran inside the removal");
    kani::cover!(al().total_frees - frees0 >= preload as u32, "a reclamation cycle freed the pre-loaded batch");
    kani::cover!(
        force_site == 0 || sched::st().site_no < force_site,
        "not in forced-site mode, or the forced site lies past the end of the outer operation"
    );
    let _ = &w; // ManuallyDrop: never dropped
}

pub const PTR_AND_LOCK_KINDS: u16 = (1 << 3) | (1 << 4) | (1 << 9) | (1 << 10) | (1 << 11) | (1 << 13);

crate::mq_harness_real!(c16_wq_drop_ptrwin, hk_c16_wq_drop_ptrwin, Runner<WqDrop<BcB>, 0>, wholequeue_drop::<BcB, 0>(19, 4, PTR_AND_LOCK_KINDS));
crate::mq_harness_real!(c16_wq_drop_seq, hk_c16_wq_drop_seq, Runner<WqDrop<BcB>, 0>, wholequeue_drop::<BcB, 0>(19, 0, 0));

// forced-site family: one harness per window site of the drop (pointer cells, locks, allocation calls)
macro_rules! wq_forced {
    ($($name:ident, $hk:ident, $k:expr;)*) => {
        $(crate::mq_harness_real!($name, $hk, Runner<WqDrop<BcB>, 0>, wholequeue_drop_at::<BcB, 0>(19, 4, PTR_AND_LOCK_KINDS, $k));)*
    };
}
wq_forced! {
    c16_wq_drop_f01, hk_c16_wq_drop_f01, 1; c16_wq_drop_f02, hk_c16_wq_drop_f02, 2; c16_wq_drop_f03, hk_c16_wq_drop_f03, 3;
    c16_wq_drop_f04, hk_c16_wq_drop_f04, 4; c16_wq_drop_f05, hk_c16_wq_drop_f05, 5; c16_wq_drop_f06, hk_c16_wq_drop_f06, 6;
    c16_wq_drop_f07, hk_c16_wq_drop_f07, 7; c16_wq_drop_f08, hk_c16_wq_drop_f08, 8; c16_wq_drop_f09, hk_c16_wq_drop_f09, 9;
    c16_wq_drop_f10, hk_c16_wq_drop_f10, 10; c16_wq_drop_f11, hk_c16_wq_drop_f11, 11; c16_wq_drop_f12, hk_c16_wq_drop_f12, 12;
    c16_wq_drop_f13, hk_c16_wq_drop_f13, 13; c16_wq_drop_f14, hk_c16_wq_drop_f14, 14; c16_wq_drop_f15, hk_c16_wq_drop_f15, 15;
    c16_wq_drop_f16, hk_c16_wq_drop_f16, 16;
}

// nesting depth 2: the writer's scan is preempted by the consumer's add_stream / remove_reader, and
// inside those (e.g. between two steps of MemoryManager::free) a third handle retires one more object
crate::mq_harness_real!(c16_protocol_d2_o0, hk_c16_protocol_d2_o0, Runner<MemProg<false, true, 0>, 0>, reclaim_protocol_d::<false, true, 0, 0>(19, 3, 2));

// slim variants: one operation per actor, one injection
crate::mq_harness_real!(c16_scan_vs_add, hk_c16_scan_vs_add, Runner<MemProg<false, false, 1>, 0>, reclaim_protocol_d::<false, false, 1, 0>(20, 1, 1));
crate::mq_harness_real!(c16_add_vs_scan, hk_c16_add_vs_scan, Runner<MemProg<false, false, 1>, 1>, reclaim_protocol_d::<false, false, 1, 1>(20, 1, 1));
crate::mq_harness_real!(c16_scan_vs_remove, hk_c16_scan_vs_remove, Runner<MemProg<false, false, 2>, 0>, reclaim_protocol_d::<false, false, 2, 0>(19, 1, 1));
crate::mq_harness_real!(c16_remove_vs_scan, hk_c16_remove_vs_scan, Runner<MemProg<false, false, 2>, 1>, reclaim_protocol_d::<false, false, 2, 1>(19, 1, 1));
