//! C09 (and the sequential part of C05/C13/C15/C17): a symbolic single-threaded history of public
//! API calls is run through the real handles and through a small reference model (one append-only
//! log, one cursor per stream, a window of N, a sender count); every return value is compared.
//!
//! Handle slots: tx0, tx1; rx0 (stream 0), rx1 (clone of rx0 -> stream 0, or add_stream -> stream 1,
//! depending on the alphabet), ux0 (rx0 converted to a single-consumer receiver).
//! Every alphabet has a 10-step skeleton; structural steps (handle creation / conversion / drop)
//! always run, for every traffic step (send / receive / view) the solver decides whether it is
//! executed; an operation whose handle does not exist is skipped.

use crate::fl::*;
use crate::payload;
use crate::sched;
use crate::world::*;
use std::sync::mpsc::{TryRecvError, TrySendError};

pub const LOGN: usize = 12;

pub struct Model {
    pub n: u8,
    pub sent: u8,
    pub log: [u8; LOGN],
    pub cur: [u8; 2],
    pub handles: [u8; 2],
    pub senders: u8,
    pub next_id: u8,
}

impl Model {
    fn new(n: u8) -> Model {
        Model {
            n,
            sent: 0,
            log: [0; LOGN],
            cur: [0, 0],
            handles: [1, 0],
            senders: 1,
            next_id: 1,
        }
    }
    fn any_stream(&self) -> bool {
        self.handles[0] > 0 || self.handles[1] > 0
    }
    fn min_cur(&self) -> u8 {
        if self.handles[0] > 0 && self.handles[1] > 0 {
            if self.cur[0] < self.cur[1] {
                self.cur[0]
            } else {
                self.cur[1]
            }
        } else if self.handles[0] > 0 {
            self.cur[0]
        } else {
            self.cur[1]
        }
    }
    /// 0 = Ok, 1 = Full, 2 = Disconnected
    fn send(&mut self, id: u8) -> u8 {
        if !self.any_stream() {
            return 2;
        }
        if self.sent - self.min_cur() >= self.n {
            return 1;
        }
        self.log[self.sent as usize % LOGN] = id;
        self.sent += 1;
        0
    }
    /// (0, id) = Ok, (1, _) = Empty, (2, _) = Disconnected
    fn recv(&mut self, s: usize) -> (u8, u8) {
        if self.cur[s] < self.sent {
            let id = self.log[self.cur[s] as usize % LOGN];
            self.cur[s] += 1;
            (0, id)
        } else if self.senders == 0 {
            (2, 0)
        } else {
            (1, 0)
        }
    }
}

/// Alphabets (ALPHA):
///  1  send(tx0) | recv(rx0) | rx1 = rx0.clone() | recv(rx1) | drop(rx1)
///  2  send(tx0) | recv(rx0) | rx1 = rx0.add_stream() | recv(rx1) | unsubscribe(rx1)      (broadcast)
///  3  send(tx0) | tx1 = tx0.clone() | send(tx1) | drop(tx1) | drop(tx0) | recv(rx0)
///  4  send(tx0) | ux0 = rx0.into_single() | view(ux0) | rx0 = ux0.into_multi() | recv(rx0) | rx1 = rx0.clone()
///  5  send(tx0) | recv(rx0) | drop(rx0) | rx1 = rx0.add_stream() | recv(rx1) | drop(rx1)  (broadcast)
pub fn history<F: Fl, const ALPHA: u8, const SK: u8, const DEPTH: usize>(cap: u64, n: u8, teardown: bool) {
    payload::reset();
    sched::configure(0, 0, 0, 0);
    let mut w = World::<F>::new(cap);
    set_world::<F>(&mut *w);
    let mut m = Model::new(n);
    // a reclamation-epoch announcement becomes pending in front of a solver-chosen step (no effect
    // on the model); 10 = never
    let ep_step: u8 = kani::any();
    kani::assume(ep_step <= 10);
    // Skeleton: the operation kind of every step is fixed (one alphabet = one skeleton in which the
    // operations recur in a mixed order); the solver decides for every step whether it is executed
    // or skipped, i.e. the harness covers every sub-sequence of the skeleton.  A free choice of
    // operation at every step (6 arms x depth 4 on symbolic handle state) did not fit into memory.
    let skel: [u8; 10] = match (ALPHA, SK) {
        // second skeletons: the structural step comes after the ring has wrapped
        //  send recv0 send clone recv1 recv0 send recv1 drop1 recv0
        (1, 1) => [0, 1, 0, 2, 3, 1, 0, 3, 4, 1],
        //  send recv0 send add recv1 recv0 send recv1 unsub send
        (2, 1) => [0, 1, 0, 2, 3, 1, 0, 3, 4, 0],
        //  send recv0 send add recv1 recv0 drop0 send drop1 send
        (5, 1) => [0, 1, 0, 3, 4, 1, 2, 0, 5, 0],
        //  send send clone recv0 recv1 send drop1 recv0 send recv0
        (1, _) => [0, 0, 2, 1, 3, 0, 4, 1, 0, 1],
        //  send send add  recv0 recv1 send unsub send recv0 send
        (2, _) => [0, 0, 2, 1, 3, 0, 4, 0, 1, 0],
        //  send clone send1 drop1 recv send drop0 recv recv send
        (3, _) => [0, 1, 2, 3, 5, 0, 4, 5, 5, 0],
        //  send single view send view multi clone recv0 single recv0
        (4, _) => [0, 1, 2, 0, 2, 3, 5, 4, 1, 4],
        //  send add recv0 drop0 send send recv1 send drop1 send
        (_, _) => [0, 3, 1, 2, 0, 0, 4, 0, 5, 0],
    };
    let mut wrapped = false;
    let mut saw_full = false;
    let mut saw_disc = false;
    let mut step = 0;
    while step < DEPTH {
        let c: u8 = skel[step];
        if step as u8 == ep_step {
            if let Some(tx) = w.tx[0].as_ref() {
                inject_epoch_pending::<F>(tx);
            }
        }
        // Only traffic operations (send / receive / view) are optional.  Structural operations
        // (creating, converting, dropping handles) always run: a handle that exists on some paths
        // only makes allocation sizes and the Arc reference count symbolic, which does not fit into
        // memory (measured: 0.5 M steps, out of memory at 16 GB, vs 10 s without).
        let traffic = match ALPHA {
            1 | 2 => c == 0 || c == 1 || c == 3,
            3 => c == 0 || c == 2 || c == 5,
            4 => c == 0 || c == 2 || c == 4,
            _ => c == 0 || c == 1 || c == 4,
        };
        let doit: bool = if traffic { kani::any() } else { true };
        if !doit {
            step += 1;
            continue;
        }
        // ---- send on tx0 (every alphabet, op 0)
        if c == 0 {
            if let Some(tx) = w.tx[0].as_ref() {
                let id = m.next_id;
                m.next_id += 1;
                let exp = m.send(id);
                check_send::<F>(F::try_send(tx, F::P::mk(id)), id, exp);
                if exp == 1 {
                    saw_full = true;
                }
                if m.sent > m.n {
                    wrapped = true;
                }
            }
        } else {
            match (ALPHA, c) {
                // ---- receive on rx0
                (1, 1) | (2, 1) | (3, 5) | (4, 4) | (5, 1) => {
                    if let Some(rx) = w.rx[0].as_ref() {
                        let exp = m.recv(0);
                        // entry point: try_recv, the non-blocking iterator, or (when the model says
                        // it cannot block) the blocking recv
                        let how: u8 = kani::any();
                        if how == 1 {
                            match F::try_iter_next(rx) {
                                Some(v) => assert!(exp.0 == 0 && exp.1 == v.id(), "C09: try_iter yielded a value the model does not predict"),
                                None => assert!(exp.0 != 0, "C09: try_iter stopped although a value is available"),
                            }
                        } else if how == 2 && exp.0 != 1 {
                            match F::recv(rx) {
                                Ok(v) => assert!(exp.0 == 0 && exp.1 == v.id(), "C09: recv returned a value the model does not predict"),
                                Err(_) => assert!(exp.0 == 2, "C09: recv reported the end, the model predicts otherwise"),
                            }
                        } else {
                            check_recv::<F>(F::try_recv(rx), exp);
                        }
                        if exp.0 == 2 {
                            saw_disc = true;
                        }
                    }
                }
                // ---- rx1 = clone of rx0
                (1, 2) | (4, 5) => {
                    if w.rx[1].is_none() {
                        if let Some(rx) = w.rx[0].as_ref() {
                            w.rx[1] = Some(F::clone_rx(rx));
                            w.rx_stream[1] = 0;
                            m.handles[0] += 1;
                        }
                    }
                }
                // ---- rx1 = rx0.add_stream()
                (2, 2) | (5, 3) => {
                    if w.rx[1].is_none() {
                        if let Some(rx) = w.rx[0].as_ref() {
                            w.rx[1] = Some(F::add_stream(rx));
                            w.rx_stream[1] = 1;
                            m.handles[1] = 1;
                            m.cur[1] = m.cur[0];
                        }
                    }
                }
                // ---- receive on rx1
                (1, 3) | (2, 3) | (5, 4) => {
                    if let Some(rx) = w.rx[1].as_ref() {
                        let s = w.rx_stream[1] as usize;
                        let exp = m.recv(s);
                        check_recv::<F>(F::try_recv(rx), exp);
                    }
                }
                // ---- drop rx1
                (1, 4) | (5, 5) => {
                    if let Some(rx) = w.rx[1].take() {
                        let s = w.rx_stream[1] as usize;
                        drop(rx);
                        m.handles[s] -= 1;
                    }
                }
                // ---- unsubscribe rx1
                (2, 4) => {
                    if let Some(rx) = w.rx[1].take() {
                        let s = w.rx_stream[1] as usize;
                        let last = F::unsubscribe_rx(rx);
                        assert!(
                            last == (m.handles[s] == 1),
                            "C09: unsubscribe did not report whether the handle was the last one on its stream"
                        );
                        m.handles[s] -= 1;
                    }
                }
                // ---- drop rx0
                (5, 2) => {
                    if let Some(rx) = w.rx[0].take() {
                        drop(rx);
                        m.handles[0] -= 1;
                    }
                }
                // ---- tx1 = tx0.clone()
                (3, 1) => {
                    if w.tx[1].is_none() {
                        if let Some(tx) = w.tx[0].as_ref() {
                            w.tx[1] = Some(F::clone_tx(tx));
                            m.senders += 1;
                        }
                    }
                }
                // ---- send on tx1
                (3, 2) => {
                    if let Some(tx) = w.tx[1].as_ref() {
                        let id = m.next_id;
                        m.next_id += 1;
                        let exp = m.send(id);
                        check_send::<F>(F::try_send(tx, F::P::mk(id)), id, exp);
                    }
                }
                // ---- drop tx1 / tx0
                (3, 3) => {
                    if let Some(tx) = w.tx[1].take() {
                        drop(tx);
                        m.senders -= 1;
                    }
                }
                (3, 4) => {
                    if let Some(tx) = w.tx[0].take() {
                        drop(tx);
                        m.senders -= 1;
                    }
                }
                // ---- ux0 = rx0.into_single()
                (4, 1) => {
                    if let Some(rx) = w.rx[0].take() {
                        match F::into_single(rx) {
                            Ok(u) => {
                                assert!(m.handles[0] == 1, "C09: into_single succeeded although the stream has another consumer");
                                w.ux[0] = Some(u);
                            }
                            Err(r) => {
                                assert!(m.handles[0] != 1, "C09: into_single failed although the handle is the only consumer");
                                w.rx[0] = Some(r);
                            }
                        }
                    }
                }
                // ---- view on ux0
                (4, 2) => {
                    if let Some(u) = w.ux[0].as_mut() {
                        let exp = m.recv(0);
                        match F::u_try_view(u) {
                            Ok(id) => assert!(exp.0 == 0 && exp.1 == id, "C09: try_recv_view returned a value the model does not predict"),
                            Err(TryRecvError::Empty) => assert!(exp.0 == 1, "C09: try_recv_view reported Empty, the model predicts otherwise"),
                            Err(TryRecvError::Disconnected) => assert!(exp.0 == 2, "C09: try_recv_view reported Disconnected, the model predicts otherwise"),
                        }
                    }
                }
                // ---- rx0 = ux0.into_multi()
                (4, 3) => {
                    if let Some(u) = w.ux[0].take() {
                        w.rx[0] = Some(F::into_multi(u));
                    }
                }
                _ => {}
            }
        }
        step += 1;
    }
    kani::cover!(wrapped, "the history wrapped the ring");
    kani::cover!(saw_full, "the history hit Full");
    if ALPHA == 3 {
        kani::cover!(saw_disc, "the history saw Disconnected");
    }
    if teardown {
        crate::scen_traffic::teardown::<F>(&mut w);
    } else {
        let _ = &w; // ManuallyDrop: never dropped
    }
}

fn check_send<F: Fl>(r: Result<(), TrySendError<F::P>>, id: u8, exp: u8) {
    match r {
        Ok(()) => assert!(exp == 0, "C09: try_send accepted a value the model refuses"),
        Err(TrySendError::Full(v)) => {
            assert!(v.id() == id, "C09: a refused send handed back a different value");
            assert!(exp == 1, "C09: try_send reported Full, the model predicts otherwise");
        }
        Err(TrySendError::Disconnected(v)) => {
            assert!(v.id() == id, "C09: a refused send handed back a different value");
            assert!(exp == 2, "C09: try_send reported Disconnected, the model predicts otherwise");
        }
    }
}

fn check_recv<F: Fl>(r: Result<F::P, TryRecvError>, exp: (u8, u8)) {
    match r {
        Ok(v) => assert!(exp.0 == 0 && exp.1 == v.id(), "C09: try_recv returned a value the model does not predict"),
        Err(TryRecvError::Empty) => assert!(exp.0 == 1, "C09: try_recv reported Empty, the model predicts otherwise"),
        Err(TryRecvError::Disconnected) => assert!(exp.0 == 2, "C09: try_recv reported Disconnected, the model predicts otherwise"),
    }
}

/// Capacity normalisation and fill/drain for one requested capacity (C03 sequential part, C09).
pub fn fill_drain<F: Fl>(cap: u64, n: u8) {
    payload::reset();
    sched::configure(0, 0, 0, 0);
    let mut w = World::<F>::new(cap);
    set_world::<F>(&mut *w);
    let tx = w.tx[0].as_ref().unwrap();
    let rx = w.rx[0].as_ref().unwrap();
    // exactly N sends are accepted, the next is Full with the same value
    let mut i: u8 = 0;
    while i < n {
        assert!(F::try_send(tx, F::P::mk(i + 1)).is_ok(), "C03: a send was refused although fewer than N values are outstanding");
        i += 1;
    }
    match F::try_send(tx, F::P::mk(100)) {
        Err(TrySendError::Full(v)) => assert!(v.id() == 100, "C03: a refused send handed back a different value"),
        _ => assert!(false, "C03: a send was not refused with Full although N values are outstanding"),
    }
    // after k receives exactly k more are accepted
    let k: u8 = kani::any();
    kani::assume(k <= n);
    let mut i: u8 = 0;
    while i < n {
        if i < k {
            match F::try_recv(rx) {
                Ok(v) => assert!(v.id() == i + 1, "C02: values were not delivered in the order sent"),
                Err(_) => assert!(false, "C01: an accepted value was not delivered"),
            }
        }
        i += 1;
    }
    let mut i: u8 = 0;
    while i < n {
        if i < k {
            assert!(F::try_send(tx, F::P::mk(50 + i)).is_ok(), "C03: a send was refused although room had been made");
        }
        i += 1;
    }
    assert!(F::try_send(tx, F::P::mk(101)).is_err(), "C03: more than N values were accepted");
    kani::cover!(k == n && n > 0, "the ring was filled, drained and filled again");
    let _ = &w; // ManuallyDrop: never dropped
}

// ------------------------------------------------------------------------------------------
// instances

pub type MpB = MpmcPlain<u8, Busy>;
pub type BcB = BcastPlain<u8, Busy>;
pub type BcT = BcastPlain<payload::Tok, Busy>;
pub type MpT = MpmcPlain<payload::Tok, Busy>;
use crate::scen_life::Idle;

macro_rules! hist {
    ($name:ident, $hk:ident, $f:ty, $alpha:literal, $depth:literal, $cap:literal, $n:literal, $td:literal) => {
        crate::mq_harness!($name, $hk, Idle, history::<$f, $alpha, 0, $depth>($cap, $n, $td));
    };
    ($name:ident, $hk:ident, $f:ty, $alpha:literal, sk $sk:literal, $depth:literal, $cap:literal, $n:literal, $td:literal) => {
        crate::mq_harness!($name, $hk, Idle, history::<$f, $alpha, $sk, $depth>($cap, $n, $td));
    };
}

hist!(c09_mp_a1, hk_c09_mp_a1, MpB, 1, 10, 2, 2, false);
hist!(c09_bc_a1, hk_c09_bc_a1, BcB, 1, 10, 1, 1, false);
hist!(c09_bc_a2, hk_c09_bc_a2, BcB, 2, 10, 2, 2, false);
hist!(c09_mp_a3, hk_c09_mp_a3, MpB, 3, 10, 1, 1, false);
hist!(c09_bc_a3, hk_c09_bc_a3, BcB, 3, 10, 2, 2, false);
hist!(c09_mp_a4, hk_c09_mp_a4, MpB, 4, 10, 1, 1, false);
hist!(c09_bc_a4, hk_c09_bc_a4, BcB, 4, 10, 2, 2, false);
hist!(c09_bc_a5, hk_c09_bc_a5, BcB, 5, 10, 2, 2, false);
hist!(c09_bc_a2w, hk_c09_bc_a2w, BcB, 2, sk 1, 10, 1, 1, false);
hist!(c09_mp_a1w, hk_c09_mp_a1w, MpB, 1, sk 1, 10, 1, 1, false);
hist!(c09_bc_a5w, hk_c09_bc_a5w, BcB, 5, sk 1, 10, 2, 2, false);

// ==========================================================================================
// C17 (bounded under churn): a handle that keeps operating must announce every reclamation epoch
// it is signalled, whatever the outcome of the operation - a handle that does not blocks every
// later reclamation cycle, and the memory retired by add/clone/drop cycles on OTHER handles then
// grows without bound.  Sequential, stubbed manager: the ledger counts update_token calls.
//   broadcast: tx0, rx0 (stream 0), ux0 (stream 1, single-consumer);  mpmc: tx0, ux0
pub fn announce_liveness<F: Fl, const BCAST: bool>(cap: u64) {
    use multiqueue2::verif_hooks::memory_access::ledger as mm;
    crate::ledger::reset();
    payload::reset();
    sched::configure(0, 0, 0, 0);
    let mut w = World::<F>::new(cap);
    set_world::<F>(&mut *w);
    if BCAST {
        w.rx[1] = Some(F::add_stream(w.rx[0].as_ref().unwrap()));
        w.rx_stream[1] = 1;
        let r = w.rx[1].take().unwrap();
        match F::into_single(r) {
            Ok(u) => w.ux[0] = Some(u),
            Err(_) => unreachable!(),
        }
    } else {
        let r = w.rx[0].take().unwrap();
        match F::into_single(r) {
            Ok(u) => w.ux[0] = Some(u),
            Err(_) => unreachable!(),
        }
    }
    crate::ledger::declare_send(0, 0, 1);
    crate::ledger::declare_recv(1, 1, 0);
    crate::ledger::declare_recv(2, 2, 1);
    crate::ledger::declare_recv(3, 1, 0);
    crate::ledger::declare_recv(4, 2, 1);
    crate::ledger::declare_send(5, 0, 2);
    // the value may or may not be in the queue when the receivers operate
    let queued: bool = kani::any();
    inject_epoch_pending::<F>(w.tx[0].as_ref().unwrap());
    macro_rules! announced {
        ($u:expr) => {
            assert!(
                mm().updates > $u,
                "C17: an operation that returned did not announce the pending reclamation epoch: a handle that keeps operating this way blocks every reclamation cycle and retired memory grows without bound"
            )
        };
    }
    if queued {
        let u = mm().updates;
        op_send::<F>(0, 0, 1);
        announced!(u);
    }
    if BCAST {
        let u = mm().updates;
        op_recv::<F>(1, 0);
        announced!(u);
    }
    let u = mm().updates;
    op_u_view::<F>(2, 0);
    announced!(u);
    kani::cover!(queued && crate::ledger::lg().recs[2].res == crate::ledger::R_OK, "the single-consumer receiver viewed a value in place");
    // second round: the queue is empty now
    if BCAST {
        let u = mm().updates;
        op_recv::<F>(3, 0);
        announced!(u);
    }
    let u = mm().updates;
    op_u_view::<F>(4, 0);
    announced!(u);
    kani::cover!(crate::ledger::lg().recs[4].res == crate::ledger::R_EMPTY, "the single-consumer receiver found the queue empty");
    let _ = &w; // ManuallyDrop: never dropped
}
crate::mq_harness!(c17_announce_bc, hk_c17_announce_bc, Idle, announce_liveness::<BcB, true>(2));
crate::mq_harness!(c17_announce_mp, hk_c17_announce_mp, Idle, announce_liveness::<MpB, false>(2));

macro_rules! fd {
    ($name:ident, $hk:ident, $f:ty, $cap:literal, $n:literal) => {
        crate::mq_harness!($name, $hk, Idle, fill_drain::<$f>($cap, $n));
    };
}
fd!(c03_fill_mp_c0, hk_c03_fill_mp_c0, MpB, 0, 1);
fd!(c03_fill_bc_c1, hk_c03_fill_bc_c1, BcB, 1, 1);
fd!(c03_fill_mp_c2, hk_c03_fill_mp_c2, MpB, 2, 2);
fd!(c03_fill_bc_c3, hk_c03_fill_bc_c3, BcB, 3, 4);
fd!(c03_fill_mp_c4, hk_c03_fill_mp_c4, MpB, 4, 4);
fd!(c03_fill_bc_c5, hk_c03_fill_bc_c5, BcB, 5, 8);
fd!(c03_fill_mp_c7, hk_c03_fill_mp_c7, MpB, 7, 8);
fd!(c03_fill_bc_c8, hk_c03_fill_bc_c8, BcB, 8, 8);
fd!(c03_fill_mp_c9, hk_c03_fill_mp_c9, MpB, 9, 16);


// ==========================================================================================
// C05 sequential templates: a fixed skeleton of operations whose repetition counts and options
// are chosen by the solver (cheaper than a free choice of operation at every step), followed by
// the teardown of every handle in a solver-chosen order.  Instrumented payload: nothing may be
// dropped twice (asserted in Drop) and nothing may survive the last handle.
//
//   ps sends | [second stream or second handle] | pr0 receives on rx0 | pr1 receives on rx1
//   | ps2 more sends (overwrite slots every stream has passed) | [view one in place] | teardown

pub fn drop_template<F: Fl, const SECOND: u8, const SENDERS_FIRST: bool, const VIEW: bool>(cap: u64, n: u8) {
    // SECOND: 0 = nothing, 1 = rx1 = rx0.clone(), 2 = rx1 = rx0.add_stream()
    payload::reset();
    sched::configure(0, 0, 0, 0);
    let mut w = World::<F>::new(cap);
    set_world::<F>(&mut *w);
    if SECOND == 1 {
        w.rx[1] = Some(F::clone_rx(w.rx[0].as_ref().unwrap()));
    } else if SECOND == 2 {
        w.rx[1] = Some(F::add_stream(w.rx[0].as_ref().unwrap()));
    }
    let ps: u8 = kani::any();
    let pr0: u8 = kani::any();
    let pr1: u8 = kani::any();
    let ps2: u8 = kani::any();
    kani::assume(ps <= n && pr0 <= ps && pr1 <= ps && ps2 <= n);
    let mut next: u8 = 1;
    let mut accepted: u8 = 0;
    let mut i = 0;
    while i < n {
        if i < ps {
            if F::try_send(w.tx[0].as_ref().unwrap(), F::P::mk(next)).is_ok() {
                accepted += 1;
            }
            next += 1;
        }
        i += 1;
    }
    let mut got0: u8 = 0;
    let mut i = 0;
    while i < n {
        if i < pr0 {
            if F::try_recv(w.rx[0].as_ref().unwrap()).is_ok() {
                got0 += 1;
            }
        }
        if SECOND != 0 && i < pr1 {
            let _ = F::try_recv(w.rx[1].as_ref().unwrap());
        }
        i += 1;
    }
    let mut i = 0;
    while i < n {
        if i < ps2 {
            if F::try_send(w.tx[0].as_ref().unwrap(), F::P::mk(next)).is_ok() {
                accepted += 1;
            }
            next += 1;
        }
        i += 1;
    }
    // structural choices are harness parameters (see `history`)
    if VIEW && SECOND != 1 {
        let r = w.rx[0].take().unwrap();
        match F::into_single(r) {
            Ok(mut u) => {
                let _ = F::u_try_view(&mut u);
                w.ux[0] = Some(u);
            }
            Err(r) => w.rx[0] = Some(r),
        }
    }
    kani::cover!(accepted > n, "a slot was overwritten after every stream had passed it");
    kani::cover!(accepted > got0 && ps2 > 0, "values are still queued at teardown");
    // teardown order is a harness parameter, not a solver choice: a symbolic order makes the
    // Arc reference count symbolic and puts the whole destructor behind every drop
    if SENDERS_FIRST {
        drop(w.tx[0].take());
        drop(w.rx[1].take());
        drop(w.ux[0].take());
        drop(w.rx[0].take());
    } else {
        drop(w.ux[0].take());
        drop(w.rx[0].take());
        drop(w.rx[1].take());
        drop(w.tx[0].take());
    }
    assert!(
        payload::n_alive() == 0,
        "C05: a payload or clone was never dropped after the last handle went away"
    );
}

macro_rules! dt {
    ($name:ident, $hk:ident, $f:ty, $second:literal, $sf:literal, $view:literal, $cap:literal, $n:literal) => {
        crate::mq_harness!($name, $hk, Idle, drop_template::<$f, $second, $sf, $view>($cap, $n));
    };
}
dt!(c05_seq_bc_n2_streams, hk_c05_seq_bc_n2_streams, BcT, 2, true, false, 2, 2);
dt!(c05_seq_bc_n1_shared, hk_c05_seq_bc_n1_shared, BcT, 1, false, false, 1, 1);
dt!(c05_seq_mp_n2_shared, hk_c05_seq_mp_n2_shared, MpT, 1, false, false, 2, 2);
dt!(c05_seq_mp_n1_single, hk_c05_seq_mp_n1_single, MpT, 0, true, true, 1, 1);
dt!(c05_seq_bc_n2_single, hk_c05_seq_bc_n2_single, BcT, 0, false, true, 2, 2);

