//! Traffic scenarios (serve C01, C02, C03, C06, C12, C18; with the `Tok` payload also C04, C05).
//!
//! A scenario = topology + symbolic sequential prefix + concurrent phase (one outer actor whose
//! operations are preempted at every shared-memory operation by solver-chosen operations of the
//! other actors) + quiescent probe/drain + oracles over the ledger.
//!
//! Topologies (`TOPO`):
//!   1  two producers (tx0, tx1 = clone: multi-writer mode) and one consumer
//!        actor 0: tx0 sends   actor 1: tx1 sends   actor 2: rx0 receives
//!   2  one producer, two consumers sharing one stream (rx1 = clone of rx0)
//!        actor 0: tx0 sends   actor 1: rx0 receives   actor 2: rx1 receives
//!   3  one producer, two streams (rx1 = rx0.add_stream(), broadcast only)
//!        actor 0: tx0 sends   actor 1: rx0 receives (stream 0)   actor 2: rx1 receives (stream 1)
//!   4  one producer, one consumer (single-writer / single-reader fast paths)
//!        actor 0: tx0 sends   actor 1: rx0 receives
//!   5  one producer, one in-place viewer (rx0.into_single())
//!        actor 0: tx0 sends   actor 1: ux0 views in place
//! Ids: actor 0 sends 1,2,..; actor 1 (topology 1) sends 3,4; prefix sends 5..; probe sends 9..

use crate::finish::*;
use crate::fl::*;
use crate::ledger::{self, lg, R_OK};
use crate::payload;
use crate::sched;
use crate::world::*;
use std::marker::PhantomData;

pub struct Tr<F, const TOPO: u8, const L0: u8, const L1: u8, const L2: u8>(PhantomData<F>);

impl<F: Fl, const TOPO: u8, const L0: u8, const L1: u8, const L2: u8> Prog for Tr<F, TOPO, L0, L1, L2> {
    const NACT: usize = if TOPO <= 3 || TOPO == 6 { 3 } else { 2 };
    const LEN: [u8; MAXACT] = [L0, L1, L2, 0];
    const BASE: [usize; MAXACT] = [0, 4, 8, 0];
    #[inline(always)]
    fn step(a: usize, k: usize) {
        match (TOPO, a) {
            (_, 0) => op_send::<F>(k, 0, 1 + k as u8),
            (1, 1) => op_send::<F>(4 + k, 1, 3 + k as u8),
            (1, _) => op_recv::<F>(8 + k, 0),
            (2, 1) | (3, 1) | (4, 1) | (6, 1) => op_recv::<F>(4 + k, 0),
            (2, _) | (3, _) => op_recv::<F>(8 + k, 1),
            (6, _) => op_drop_rx::<F>(8 + k, 1),
            (_, _) => op_u_view::<F>(4 + k, 0),
        }
    }
}

pub struct TrCfg {
    pub cap: u64,
    /// normalised capacity
    pub n: u8,
    pub depth: u8,
    pub budget: u8,
    pub kinds: u16,
    pub per_site: u8,
    /// upper bounds of the symbolic sequential prefix (sends by tx0, receives per stream)
    pub pre_send: u8,
    pub pre_recv: u8,
    /// tear everything down at the end and check the payload table (Tok payload only)
    pub teardown: bool,
    /// keep a second (idle) sender handle alive so that tx0 runs the multi-writer paths
    pub multi_writer: bool,
    /// the prefix runs exactly pre_send sends and pre_recv receives (concrete resting state)
    pub exact: bool,
    /// forced-site mode (sched::force): 0 = off, else (site, mandatory operations, who runs n-th)
    pub force: (u16, u8, [u8; 4]),
}

pub const QUICK: TrCfg = TrCfg {
    cap: 2,
    n: 2,
    depth: 1,
    budget: 2,
    kinds: sched::MEM_KINDS | (1 << payload::K_PAYLOAD),
    per_site: 1,
    pre_send: 0,
    pre_recv: 0,
    teardown: false,
    multi_writer: false,
    exact: false,
    force: (0, 0, [1; 4]),
};

pub fn traffic<F: Fl, const TOPO: u8, const OUTER: usize, const L0: u8, const L1: u8, const L2: u8>(c: &TrCfg) {
    ledger::reset();
    payload::reset();
    sched::configure(c.depth, c.budget, c.kinds, c.per_site);
    if c.force.0 != 0 {
        sched::force(c.force.0, c.force.1, c.force.2);
    }
    let mut w = World::<F>::new(c.cap);
    set_world::<F>(&mut *w);
    let nstreams: u8 = if TOPO == 3 { 2 } else { 1 };
    if c.multi_writer {
        w.tx[2] = Some(F::clone_tx(w.tx[0].as_ref().unwrap()));
    }
    // topology
    match TOPO {
        1 => {
            w.tx[1] = Some(F::clone_tx(w.tx[0].as_ref().unwrap()));
        }
        2 | 6 => {
            w.rx[1] = Some(F::clone_rx(w.rx[0].as_ref().unwrap()));
        }
        3 => {
            w.rx[1] = Some(F::add_stream(w.rx[0].as_ref().unwrap()));
            w.rx_stream[1] = 1;
        }
        4 => {}
        _ => {
            let r = w.rx[0].take().unwrap();
            match F::into_single(r) {
                Ok(u) => w.ux[0] = Some(u),
                Err(_) => unreachable!(),
            }
        }
    }
    // declarations (only operations that exist: ids must map to exactly one send record)
    let mut k = 0;
    while k < 4 {
        if k < L0 as usize {
            ledger::declare_send(k, 0, 1 + k as u8);
        }
        match TOPO {
            1 => {
                if k < L1 as usize {
                    ledger::declare_send(4 + k, 1, 3 + k as u8);
                }
                if k < L2 as usize {
                    ledger::declare_recv(8 + k, 2, 0);
                }
            }
            2 => {
                if k < L1 as usize {
                    ledger::declare_recv(4 + k, 1, 0);
                }
                if k < L2 as usize {
                    ledger::declare_recv(8 + k, 2, 0);
                }
            }
            3 => {
                if k < L1 as usize {
                    ledger::declare_recv(4 + k, 1, 0);
                }
                if k < L2 as usize {
                    ledger::declare_recv(8 + k, 2, 1);
                }
            }
            6 => {
                if k < L1 as usize {
                    ledger::declare_recv(4 + k, 1, 0);
                }
                if k < L2 as usize {
                    ledger::declare_other(8 + k, 2);
                }
            }
            _ => {
                if k < L1 as usize {
                    ledger::declare_recv(4 + k, 1, 0);
                }
            }
        }
        k += 1;
    }
    // symbolic sequential prefix: ps sends, then pr receives on every stream
    if c.pre_send > 0 {
        let ps: u8 = if c.exact { c.pre_send } else { kani::any() };
        kani::assume(ps <= c.pre_send);
        let mut i = 0;
        while i < c.pre_send {
            let slot = PRE_SEND_SLOT0 + i as usize;
            ledger::declare_send(slot, 8, 5 + i);
            if i < ps {
                op_send::<F>(slot, 0, 5 + i);
            }
            i += 1;
        }
        let pr: u8 = if c.exact { c.pre_recv } else { kani::any() };
        kani::assume(pr <= c.pre_recv && pr <= ps);
        let mut s = 0;
        while s < nstreams {
            let mut i = 0;
            while i < c.pre_recv {
                let slot = PRE_RECV_SLOT0 + (s * c.pre_recv + i) as usize;
                ledger::declare_recv(slot, 8, s);
                if i < pr {
                    if TOPO == 5 {
                        op_u_view::<F>(slot, 0);
                    } else {
                        op_recv::<F>(slot, s as usize);
                    }
                    assert!(
                        lg().recs[slot].res == R_OK,
                        "C09: a receive on a non-empty quiescent queue did not deliver"
                    );
                }
                i += 1;
            }
            s += 1;
        }
        kani::cover!(c.exact || (ps > 0 && pr == ps), "prefix wrapped or advanced the ring");
    }

    run_concurrent::<Tr<F, TOPO, L0, L1, L2>, OUTER>();
    kani::cover!(sched::st().injected > 0, "an operation ran at a preemption point");
    assert!(
        sched::st().max_steps_seen <= 96,
        "C18: a try operation took more than 96 of its own steps"
    );

    if TOPO == 5 {
        // convert back so that the stream can be drained with the ordinary receiver
        let u = w.ux[0].take().unwrap();
        w.rx[0] = Some(F::into_multi(u));
    }
    finish::<F>(&Finish {
        n: c.n,
        nstreams,
        full: if nstreams == 2 { 3 } else { 1 },
        drain_rx: [0, 1, 0],
        probe_tx: 0,
        probe_id0: 9,
    });
    if c.teardown {
        if TOPO == 6 {
            // rx1 was dropped by actor 2 (its slot still holds the stale bytes, see world::op_drop_rx)
            std::mem::forget(w.rx[1].take());
        }
        teardown::<F>(&mut w);
    } else {
        let _ = &w; // ManuallyDrop: never dropped
    }
}

/// Drop every handle (senders first) and check that every payload instance is gone.
pub fn teardown<F: Fl>(w: &mut World<F>) {
    let mut i = 0;
    while i < NTX {
        drop(w.tx[i].take());
        i += 1;
    }
    let mut i = 0;
    while i < NUX {
        drop(w.ux[i].take());
        i += 1;
    }
    let mut i = 0;
    while i < NRX {
        drop(w.rx[i].take());
        i += 1;
    }
    assert!(
        payload::n_alive() == 0,
        "C05: a payload or clone was never dropped after the last handle went away"
    );
}

// ------------------------------------------------------------------------------------------
// instances

pub type MpB = MpmcPlain<u8, Busy>;
pub type BcB = BcastPlain<u8, Busy>;

macro_rules! tr {
    ($name:ident, $hk:ident, $f:ty, $topo:literal, $outer:literal, [$l0:literal, $l1:literal, $l2:literal], $cfg:expr) => {
        crate::mq_harness!(
            $name,
            $hk,
            Runner<Tr<$f, $topo, $l0, $l1, $l2>, $outer>,
            traffic::<$f, $topo, $outer, $l0, $l1, $l2>(&$cfg)
        );
    };
}

// ---- topology 1: two producers, one consumer
tr!(t1_mp_n2_o0, hk_t1_mp_n2_o0, MpB, 1, 0, [1, 1, 1], QUICK);
tr!(t1_mp_n2_o2, hk_t1_mp_n2_o2, MpB, 1, 2, [1, 1, 1], QUICK);
tr!(t1_bc_n2_o0, hk_t1_bc_n2_o0, BcB, 1, 0, [1, 1, 1], QUICK);
tr!(t1_mp_n1_o0, hk_t1_mp_n1_o0, MpB, 1, 0, [1, 1, 1], TrCfg { cap: 1, n: 1, pre_send: 1, pre_recv: 1, ..QUICK });
// ---- topology 2: one producer, two consumers on one stream
tr!(t2_mp_n2_o1, hk_t2_mp_n2_o1, MpB, 2, 1, [1, 1, 1], TrCfg { pre_send: 2, pre_recv: 1, ..QUICK });
tr!(t2_bc_n2_o1, hk_t2_bc_n2_o1, BcB, 2, 1, [1, 1, 1], TrCfg { pre_send: 2, pre_recv: 1, ..QUICK });
tr!(t2_bc_n2_o0, hk_t2_bc_n2_o0, BcB, 2, 0, [1, 1, 1], TrCfg { pre_send: 2, pre_recv: 1, ..QUICK });
// ---- topology 3: one producer, two streams
tr!(t3_bc_n2_o0, hk_t3_bc_n2_o0, BcB, 3, 0, [1, 1, 1], TrCfg { pre_send: 2, pre_recv: 1, ..QUICK });
tr!(t3_bc_n1_o1, hk_t3_bc_n1_o1, BcB, 3, 1, [1, 1, 1], TrCfg { cap: 1, n: 1, pre_send: 1, pre_recv: 1, ..QUICK });
// ---- topology 4: single writer, single reader
tr!(t4_mp_n1_o0, hk_t4_mp_n1_o0, MpB, 4, 0, [2, 2, 0], TrCfg { cap: 1, n: 1, pre_send: 1, pre_recv: 1, ..QUICK });
tr!(t4_bc_n2_o1, hk_t4_bc_n2_o1, BcB, 4, 1, [2, 2, 0], TrCfg { pre_send: 2, pre_recv: 2, ..QUICK });
// ---- topology 5: in-place viewer
tr!(t5_bc_n2_o1, hk_t5_bc_n2_o1, BcB, 5, 1, [1, 1, 0], TrCfg { pre_send: 2, pre_recv: 1, ..QUICK });
tr!(t5_mp_n1_o0, hk_t5_mp_n1_o0, MpB, 5, 0, [1, 1, 0], TrCfg { cap: 1, n: 1, pre_send: 1, pre_recv: 1, ..QUICK });

// ---- instrumented payload (C04 / C05)
pub type BcT = BcastPlain<payload::Tok, Busy>;
pub type MpT = MpmcPlain<payload::Tok, Busy>;

/// injection only inside Clone / view closures, several operations at one such site
pub const IN_CLONE: TrCfg = TrCfg {
    cap: 2,
    n: 2,
    depth: 1,
    budget: 3,
    kinds: 1 << payload::K_PAYLOAD,
    per_site: 3,
    pre_send: 2,
    pre_recv: 1,
    teardown: true,
    multi_writer: false,
    exact: true,
    force: (0, 0, [1; 4]),
};

// consumer A is in the middle of clone(); its sibling B on the same stream and the producer run there
tr!(c04_bc_shared_inclone, hk_c04_bc_shared_inclone, BcT, 2, 1, [2, 1, 1], IN_CLONE);
// (the same scenario run by C05's check: the overwritten value is *dropped* while it is being cloned)
tr!(c05_bc_shared_inclone, hk_c05_bc_shared_inclone, BcT, 2, 1, [2, 1, 1], IN_CLONE);
// two streams: A (stream 0) is in the middle of clone(); stream 1 and the producer run there
tr!(c04_bc_streams_inclone, hk_c04_bc_streams_inclone, BcT, 3, 1, [2, 1, 1], IN_CLONE);
// sole consumer viewing in place; the producer tries to wrap the ring meanwhile
tr!(c04_bc_view_inview, hk_c04_bc_view_inview, BcT, 5, 1, [3, 1, 0], TrCfg { per_site: 3, ..IN_CLONE });
tr!(c04_mp_view_inview, hk_c04_mp_view_inview, MpT, 5, 1, [3, 1, 0], TrCfg { per_site: 3, kinds: (1 << payload::K_PAYLOAD) | (1 << payload::K_PAYLOAD_DROP), ..IN_CLONE });
// the same with two live senders: the producer runs the multi-writer path (CAS claim loop)
tr!(c18_bc_shared_inclone_mw, hk_c18_bc_shared_inclone_mw, BcT, 2, 1, [2, 1, 1], TrCfg { multi_writer: true, ..IN_CLONE });
// consumer A is in the middle of clone() when its sibling handle is dropped (consumers 2 -> 1)
tr!(c06_bc_sibdrop_inclone, hk_c06_bc_sibdrop_inclone, BcT, 6, 1, [1, 1, 1], TrCfg { teardown: false, budget: 2, per_site: 2, pre_send: 2, pre_recv: 1, ..IN_CLONE });
// the same with the sibling's drop ALWAYS inside A's first clone() (a concrete place), then optionally the producer
tr!(c06_bc_sibdrop_forced, hk_c06_bc_sibdrop_forced, BcT, 6, 1, [2, 1, 1], TrCfg { teardown: false, budget: 3, per_site: 3, pre_send: 2, pre_recv: 1, force: (1, 1, [2, 1, 1, 1]), ..IN_CLONE });
tr!(c06_bc_sibdrop_forced_n1, hk_c06_bc_sibdrop_forced_n1, BcT, 6, 1, [2, 1, 1], TrCfg { cap: 1, n: 1, teardown: false, budget: 3, per_site: 3, pre_send: 1, pre_recv: 0, force: (1, 1, [2, 1, 1, 1]), ..IN_CLONE });
tr!(c12_bc_sibdrop_forced, hk_c12_bc_sibdrop_forced, BcT, 6, 1, [2, 1, 1], TrCfg { teardown: false, budget: 3, per_site: 3, pre_send: 2, pre_recv: 1, force: (1, 1, [2, 1, 1, 1]), ..IN_CLONE });
tr!(c06_bc_sibdrop_all, hk_c06_bc_sibdrop_all, BcB, 6, 1, [1, 1, 1], TrCfg { pre_send: 2, pre_recv: 1, ..QUICK });
// all preemption sites, instrumented payload, teardown at the end
tr!(c04_bc_shared_all, hk_c04_bc_shared_all, BcT, 2, 1, [1, 1, 1], TrCfg { pre_send: 2, pre_recv: 1, teardown: true, ..QUICK });
tr!(c05_mp_shared_all, hk_c05_mp_shared_all, MpT, 2, 1, [1, 1, 1], TrCfg { pre_send: 2, pre_recv: 1, teardown: true, ..QUICK });



// ---- C18: a try operation runs alone while another thread is frozen in the middle of an operation
tr!(c18_mp_frozen_recv, hk_c18_mp_frozen_recv, MpB, 1, 2, [1, 1, 1], TrCfg { budget: 1, ..QUICK });
tr!(c18_bc_frozen_send, hk_c18_bc_frozen_send, BcB, 2, 0, [1, 1, 1], TrCfg { budget: 1, pre_send: 1, pre_recv: 1, ..QUICK });
tr!(c18_mp_frozen_send_mw, hk_c18_mp_frozen_send_mw, MpB, 1, 0, [1, 1, 1], TrCfg { cap: 1, n: 1, budget: 1, pre_send: 1, pre_recv: 1, ..QUICK });
