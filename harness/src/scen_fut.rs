//! Futures handles: C14 (a parked task is always notified) and C15 (Sink/Stream contract).
//!
//! The futures task layer is the stub crate /verif/stubs/futures01: the harness is the executor.
//! It sets the current task id before every poll/start_send and reads back per-task notification
//! counts.  A task whose call returned NotReady is parked; C14 says it must be notified once the
//! condition it waits for holds.

use crate::finish::PRE_SEND_SLOT0;
use crate::fl::*;
use crate::ledger::{self, lg, *};
use crate::payload;
use crate::sched;
use crate::world::*;
use std::marker::PhantomData;
use std::sync::mpsc::TryRecvError;

const TASK_TX: usize = 1;
const TASK_RX: usize = 2;
const TASK_RX2: usize = 3;

/// notification count of each task at the beginning of its latest poll / start_send.  A task is
/// "woken" iff it was notified after that point: notifications that arrive while the call is still
/// running make a futures-0.1 executor poll the task again, earlier ones are used up.
pub static mut CALL_START: [usize; 4] = [0; 4];

fn mark_call_start(task: usize) {
    unsafe { CALL_START[task] = notify_count(task) };
}

/// Native replay only: `FutWait::fut_wait` names `::std::thread::sleep` by absolute path, which is
/// redirected to the shim (and so to the `slept` flag) with `#[kani::stub]` under Kani; natively the
/// real sleep runs, so a call that takes >= 90 ms is what "slept inside the call" looks like.
#[cfg(not(kani))]
fn timed<R>(f: impl FnOnce() -> R) -> R {
    let t0 = std::time::Instant::now();
    let r = f();
    if t0.elapsed() >= std::time::Duration::from_millis(90) {
        sched::st().slept = true;
    }
    r
}
#[cfg(kani)]
#[inline(always)]
fn timed<R>(f: impl FnOnce() -> R) -> R {
    f()
}

pub fn woken_since_last_call(task: usize) -> bool {
    notify_count(task) > unsafe { CALL_START[task] }
}

pub fn op_start_send<F: FutFl>(slot: usize, tx: usize, id: u8, task: usize) {
    ledger::begin(slot);
    mark_call_start(task);
    set_task(task);
    let t = unsafe { (*std::ptr::addr_of_mut!((*wp::<F>()).tx[tx])).as_mut().unwrap() };
    let res = match timed(|| F::start_send(t, F::P::mk(id))) {
        SS::Ready => R_OK,
        SS::NotReady(v) => {
            assert!(v.id() == id, "C15: start_send returned a different message in NotReady");
            R_NOTREADY
        }
        SS::Err(v) => {
            assert!(v.id() == id, "C15: start_send returned a different message in its error");
            R_DISC
        }
    };
    set_task(0);
    ledger::end_send(slot, res);
}

pub fn op_poll<F: FutFl>(slot: usize, rx: usize, task: usize) {
    ledger::begin(slot);
    mark_call_start(task);
    set_task(task);
    let r = unsafe { (*std::ptr::addr_of_mut!((*wp::<F>()).rx[rx])).as_mut().unwrap() };
    match timed(|| F::poll(r)) {
        Some(Some(v)) => ledger::end_recv(slot, R_OK, v.id()),
        Some(None) => ledger::end_recv(slot, R_DISC, 0),
        None => ledger::end_recv(slot, R_NOTREADY, 0),
    }
    set_task(0);
}

pub fn op_u_poll<F: FutFl>(slot: usize, ux: usize, task: usize) {
    ledger::begin(slot);
    mark_call_start(task);
    set_task(task);
    let u = unsafe { (*std::ptr::addr_of_mut!((*wp::<F>()).ux[ux])).as_mut().unwrap() };
    match timed(|| F::u_poll(u)) {
        Some(Some(id)) => ledger::end_recv(slot, R_OK, id),
        Some(None) => ledger::end_recv(slot, R_DISC, 0),
        None => ledger::end_recv(slot, R_NOTREADY, 0),
    }
    set_task(0);
}

// ==========================================================================================
// C14 scenarios
//   KIND 1: stream task polls an empty queue (may park); sink task start_sends 1
//   KIND 2: sink task start_sends into a full queue (may park); stream task polls (frees a slot)
//   KIND 3: sink task start_sends into a full queue; the receiver frees a slot with direct try_recv
//   KIND 4: stream task polls an empty queue; the last sender is dropped
//   KIND 5: sink task start_sends into a full queue; the last receiver is dropped
//   KIND 6: two stream tasks on one shared stream poll an empty queue; sink task start_sends 1, 2
//   KIND 7: sink task start_sends into a full queue; the single-consumer (view) receiver polls
//   KIND 8: two streams, the ring is full because of stream 1 only and the sink task is already
//           parked; the last handle of stream 1 is dropped (outer) while the executor re-polls the
//           sink task as soon as it has been notified
//   KIND 9: like 1 but on a fresh, never-wrapped queue (C15 names this case explicitly)
//   KIND 10: a stream task is parked on the empty, lapped queue; the last TWO sender handles are dropped
//           "at the same time": the drop of tx1 runs at the k-th shared-memory operation of the drop
//           of tx0, for every k (forced-site mode, DESIGN.md 4); the task must have been notified
//   KIND 11: a stream task is parked on the empty, lapped queue; the LAST sender handle is dropped (outer) and
//           at the k-th shared-memory operation of that drop, for every k (forced-site mode), the executor
//           re-polls the task if it has been notified by then (a prompt executor); the task's last poll must
//           have reported the end, or the task must have been notified after it
//   actor 0 = the task that may park (outer), actor 1 (2) = the other side

pub struct Park<F, const KIND: u8>(PhantomData<F>);

impl<F: FutFl, const KIND: u8> Prog for Park<F, KIND> {
    const NACT: usize = if KIND == 6 { 3 } else { 2 };
    const LEN: [u8; MAXACT] = [1, if KIND == 6 { 2 } else { 1 }, if KIND == 6 { 1 } else { 0 }, 0];
    const BASE: [usize; MAXACT] = [0, 4, 8, 0];
    #[inline(always)]
    fn step(a: usize, k: usize) {
        match (KIND, a) {
            (10, 0) => op_drop_tx::<F>(0, 0),
            (10, _) => op_drop_tx::<F>(4, 1),
            (11, 0) => op_drop_tx::<F>(0, 0),
            (11, _) => {
                // the executor polls the parked task again as soon as (and only if) it was notified
                if woken_since_last_call(TASK_RX) {
                    op_poll::<F>(4, 0, TASK_RX)
                }
            }
            (8, 0) => op_drop_rx::<F>(0, 1),
            (8, _) => {
                // the executor polls a task again only after it was notified
                kani::assume(woken_since_last_call(TASK_TX));
                op_start_send::<F>(4, 0, 2, TASK_TX)
            }
            (1, 0) | (4, 0) | (6, 0) | (9, 0) => op_poll::<F>(0, 0, TASK_RX),
            (2, 0) | (3, 0) | (5, 0) | (7, 0) => op_start_send::<F>(0, 0, 1, TASK_TX),
            (1, _) | (9, _) => op_start_send::<F>(4, 0, 1, TASK_TX),
            (2, _) => op_poll::<F>(4, 0, TASK_RX),
            (3, _) => op_recv::<F>(4, 0),
            (4, _) => op_drop_tx::<F>(4, 0),
            (5, _) => op_drop_rx::<F>(4, 0),
            (6, 1) => op_start_send::<F>(4 + k, 0, 1 + k as u8, TASK_TX),
            (6, _) => op_poll::<F>(8, 1, TASK_RX2),
            (_, _) => op_u_poll::<F>(4, 0, TASK_RX),
        }
    }
}

pub fn parked<F: FutFl, const KIND: u8, const OUTER: usize>(cap: u64, n: u8, budget: u8, kinds: u16, per_site: u8) {
    ledger::reset();
    payload::reset();
    sched::configure(1, budget, kinds, per_site);
    let mut w = World::<F>::new(cap);
    set_world::<F>(&mut *w);
    if KIND == 6 {
        w.rx[1] = Some(F::clone_rx(w.rx[0].as_ref().unwrap()));
    }
    unsafe { CALL_START = [0; 4] };
    if KIND == 8 {
        parked_stream_removed::<F, OUTER>(&mut w);
        let _ = &w; // ManuallyDrop: never dropped
        return;
    }
    let sender_parks = KIND == 2 || KIND == 3 || KIND == 5 || KIND == 7;
    if sender_parks {
        // fill the ring
        let mut i = 0;
        while i < n {
            let slot = PRE_SEND_SLOT0 + i as usize;
            ledger::declare_send(slot, 8, 5 + i);
            op_send::<F>(slot, 0, 5 + i);
            assert!(lg().recs[slot].res == R_OK, "C09: a send into a queue with room was refused");
            i += 1;
        }
        ledger::declare_send(0, 0, 1);
    } else {
        // lap the ring once first: on a never-written slot the wait condition is immediately true,
        // so a poll on a fresh queue never parks (that case is KIND 9, see below)
        if KIND != 9 {
            let mut i = 0;
            while i < n {
                let ss = PRE_SEND_SLOT0 + i as usize;
                let rs = crate::finish::PRE_RECV_SLOT0 + i as usize;
                ledger::declare_send(ss, 8, 5 + i);
                ledger::declare_recv(rs, 8, 0);
                op_send::<F>(ss, 0, 5 + i);
                op_recv::<F>(rs, 0);
                if KIND == 6 {
                    // both handles share the stream: nothing more to consume
                }
                i += 1;
            }
        }
        ledger::declare_recv(0, 0, 0);
    }
    if KIND == 7 {
        let r = w.rx[0].take().unwrap();
        match F::into_single(r) {
            Ok(u) => w.ux[0] = Some(u),
            Err(_) => unreachable!(),
        }
    }
    match KIND {
        1 | 9 => ledger::declare_send(4, 1, 1),
        2 | 3 | 7 => ledger::declare_recv(4, 1, 0),
        4 | 5 => ledger::declare_other(4, 1),
        _ => {
            ledger::declare_send(4, 1, 1);
            ledger::declare_send(5, 1, 2);
            ledger::declare_recv(8, 2, 0);
        }
    }
    run_concurrent::<Park<F, KIND>, OUTER>();
    kani::cover!(sched::st().injected > 0, "an operation ran at a preemption point");

    // quiescence: is a task parked although it could make progress, without ever being notified?
    let l = lg();
    let acc = ledger::n_accepted();
    let del = ledger::n_delivered(0);
    let me = l.recs[0];
    kani::cover!(me.res == R_NOTREADY, "the task parked");
    assert!(
        !sched::st().slept,
        "C15: poll / start_send waited (slept) inside the call instead of returning NotReady at once"
    );
    if sender_parks {
        if me.res == R_NOTREADY {
            let space = acc - del < n;
            let receivers_gone = KIND == 5 && l.recs[4].res == R_DONE;
            if space || receivers_gone {
                assert!(
                    woken_since_last_call(TASK_TX),
                    "C14: a sink task stays parked although space was freed or the receivers went away"
                );
            }
        }
    } else if me.res == R_NOTREADY {
        let value_waiting = acc > del;
        let senders_gone = KIND == 4 && l.recs[4].res == R_DONE;
        if value_waiting || senders_gone {
            assert!(
                woken_since_last_call(TASK_RX),
                "C14: a stream task stays parked although a value is available or the senders went away"
            );
        }
    }
    if KIND == 6 && l.recs[8].res == R_NOTREADY && acc > del {
        assert!(
            woken_since_last_call(TASK_RX2),
            "C14: a stream task stays parked although a value is available"
        );
    }
    ledger::check_c01(1, 0);
    ledger::check_c02();
    let _ = &w; // ManuallyDrop: never dropped
}

/// KIND 10 (see above).
pub fn parked_two_sender_drops<F: FutFl>(cap: u64, n: u8, sites: u16) {
    let mut k: u16 = 1;
    let mut beyond = false;
    while k <= sites {
        ledger::reset();
        payload::reset();
        sched::configure(1, 1, sched::MEM_KINDS, 1);
        sched::force(k, 1, [1; 4]);
        let mut w = World::<F>::new(cap);
        set_world::<F>(&mut *w);
        w.tx[1] = Some(F::clone_tx(w.tx[0].as_ref().unwrap()));
        unsafe { CALL_START = [0; 4] };
        // lap the ring, then the stream task polls the empty queue and parks
        let mut i = 0;
        while i < n {
            let ss = PRE_SEND_SLOT0 + i as usize;
            let rs = crate::finish::PRE_RECV_SLOT0 + i as usize;
            ledger::declare_send(ss, 8, 5 + i);
            ledger::declare_recv(rs, 8, 0);
            op_send::<F>(ss, 0, 5 + i);
            op_recv::<F>(rs, 0);
            i += 1;
        }
        ledger::declare_recv(8, 2, 0);
        op_poll::<F>(8, 0, TASK_RX);
        assert!(lg().recs[8].res == R_NOTREADY, "C15: poll on an empty queue with live senders did not return NotReady");
        ledger::declare_other(0, 0);
        ledger::declare_other(4, 1);
        run_concurrent::<Park<F, 10>, 0>();
        if sched::st().site_no < k {
            beyond = true;
        }
        assert!(
            woken_since_last_call(TASK_RX),
            "C07: the end of the stream is never reported: a stream task stays parked although every sender is gone and was not notified (C14)"
        );
        let _ = &w; // ManuallyDrop: never dropped
        k += 1;
    }
    kani::cover!(beyond, "the forced site lies past the end of the outer operation (every site was enumerated)");
}

/// KIND 11 (see above).
pub fn parked_sender_drop_repoll<F: FutFl>(cap: u64, n: u8, sites: u16) {
    let mut k: u16 = 1;
    let mut beyond = false;
    let mut repolled_inside = false;
    while k <= sites {
        ledger::reset();
        payload::reset();
        sched::configure(1, 1, sched::MEM_KINDS, 1);
        sched::force(k, 1, [1; 4]);
        let mut w = World::<F>::new(cap);
        set_world::<F>(&mut *w);
        unsafe { CALL_START = [0; 4] };
        // lap the ring, then the stream task polls the empty queue and parks
        let mut i = 0;
        while i < n {
            let ss = PRE_SEND_SLOT0 + i as usize;
            let rs = crate::finish::PRE_RECV_SLOT0 + i as usize;
            ledger::declare_send(ss, 8, 5 + i);
            ledger::declare_recv(rs, 8, 0);
            op_send::<F>(ss, 0, 5 + i);
            op_recv::<F>(rs, 0);
            i += 1;
        }
        ledger::declare_recv(8, 2, 0);
        op_poll::<F>(8, 0, TASK_RX);
        assert!(lg().recs[8].res == R_NOTREADY, "C15: poll on an empty queue with live senders did not return NotReady");
        ledger::declare_other(0, 0);
        ledger::declare_recv(4, 1, 0);
        run_concurrent::<Park<F, 11>, 0>();
        if sched::st().site_no < k {
            beyond = true;
        }
        let last = lg().recs[4].res;
        if sched::st().injected > 0 && last != R_NONE && sched::st().site_no >= k {
            repolled_inside = true;
        }
        assert!(last == R_NONE || last == R_NOTREADY || last == R_DISC, "C07: a poll after the last sender left returned a value that was never sent");
        if last != R_DISC {
            assert!(
                woken_since_last_call(TASK_RX),
                "C14: a stream task stays parked although the last sender went away: the notification came before the queue could report the end, and none followed"
            );
        }
        let _ = &w; // ManuallyDrop: never dropped
        k += 1;
    }
    kani::cover!(beyond, "the forced site lies past the end of the outer operation (every site was enumerated)");
    kani::cover!(repolled_inside, "the task was polled again inside the drop of the last sender");
}

/// KIND 8 (see above).  N = 1.
fn parked_stream_removed<F: FutFl, const OUTER: usize>(w: &mut World<F>) {
    w.rx[1] = Some(F::add_stream(w.rx[0].as_ref().unwrap()));
    w.rx_stream[1] = 1;
    // one value: stream 0 takes it, stream 1 keeps it -> the ring (N = 1) is full because of stream 1
    ledger::declare_send(PRE_SEND_SLOT0, 8, 5);
    op_send::<F>(PRE_SEND_SLOT0, 0, 5);
    ledger::declare_recv(PRE_SEND_SLOT0 + 1, 8, 0);
    op_recv::<F>(PRE_SEND_SLOT0 + 1, 0);
    // the sink task tries to send and parks
    ledger::declare_send(PRE_SEND_SLOT0 + 2, 8, 1);
    op_start_send::<F>(PRE_SEND_SLOT0 + 2, 0, 1, TASK_TX);
    assert!(
        lg().recs[PRE_SEND_SLOT0 + 2].res == R_NOTREADY,
        "C15: start_send into a full queue did not return NotReady"
    );
    ledger::declare_other(0, 0);
    ledger::declare_send(4, 1, 2);
    // concurrent phase: drop of stream 1's last handle; the executor re-polls the task once woken
    unsafe {
        PC = [0; MAXACT];
    }
    sched::enable();
    sched::op_begin();
    op_drop_rx::<F>(0, 1);
    sched::op_end();
    sched::disable();
    let repolled = lg().recs[4].res != R_NONE;
    // (re-polling inside the removal is only possible if the notification comes before the
    // removal has finished - on correct code this witness is unsatisfiable and is optional)
    kani::cover!(repolled, "the sink task was polled again while the stream was being removed");
    kani::cover!(woken_since_last_call(TASK_TX) || repolled, "the parked sink task was notified by the removal");
    // quiescence: stream 1 is gone, stream 0 is drained: there is room.  Either the task got its
    // value in, or it must have been woken after the start of its last call
    let last = if repolled { lg().recs[4].res } else { R_NOTREADY };
    if last == R_NOTREADY {
        assert!(
            woken_since_last_call(TASK_TX),
            "C14: a sink task stays parked although the stream that blocked it was removed"
        );
    }
}

// ==========================================================================================
// C15 sequential: futures handles vs the reference model, inside a task
//   0 start_send(tx0) | 1 poll(rx0) | 2 direct try_recv(rx0) | 3 direct try_send(tx0) | 4 drop(tx0)
//   5 poll_complete(tx0)

pub fn fut_history<F: FutFl, const DEPTH: usize>(cap: u64, n: u8) {
    payload::reset();
    sched::configure(0, 0, 0, 0);
    sched::enable(); // points are counted (for the "slept" flag); nothing is injected (depth 0)
    let mut w = World::<F>::new(cap);
    set_world::<F>(&mut *w);
    let mut sent: u8 = 0;
    let mut cur: u8 = 0;
    let mut log = [0u8; 12];
    let mut senders: u8 = 1;
    let mut next_id: u8 = 1;
    let mut saw_notready_send = false;
    let mut saw_notready_poll = false;
    let mut saw_end = false;
    let mut step = 0;
    set_task(1);
    // Concrete warm-up: fill the ring, one start_send that parks (NotReady), drain with polls.
    // It laps the ring and - more importantly for the encoding - makes the producer-side parked list
    // allocate its buffer at a concrete point; a first push under a solver-chosen condition would
    // make the VecDeque's capacity symbolic and every later push a symbolic-size reallocation.
    {
        let mut i = 0;
        while i < n {
            let id = next_id;
            next_id += 1;
            match F::start_send(w.tx[0].as_mut().unwrap(), F::P::mk(id)) {
                SS::Ready => {
                    log[sent as usize % 12] = id;
                    sent += 1;
                }
                _ => assert!(false, "C15: start_send into a queue with room did not accept the value"),
            }
            i += 1;
        }
        let id = next_id;
        next_id += 1;
        match F::start_send(w.tx[0].as_mut().unwrap(), F::P::mk(id)) {
            SS::NotReady(v) => assert!(v.id() == id, "C15: start_send returned a different message in NotReady"),
            _ => assert!(false, "C15: start_send into a full queue did not return NotReady"),
        }
        let mut i = 0;
        while i < n {
            match F::poll(w.rx[0].as_mut().unwrap()) {
                Some(Some(v)) => {
                    assert!(v.id() == log[cur as usize % 12], "C15: the stream yielded a value the model does not predict");
                    cur += 1;
                }
                _ => assert!(false, "C15: poll on a non-empty queue did not yield a value"),
            }
            i += 1;
        }
    }
    // skeleton (see scen_seq::history): fixed operation kinds, the solver decides per step whether
    // the step is executed:  start_send start_send try_recv start_send try_send poll_complete poll
    //                        poll drop_tx poll      (the polls that may park come after the sends)
    let skel: [u8; 10] = [0, 0, 2, 0, 3, 5, 1, 1, 4, 1];
    while step < DEPTH {
        let c: u8 = skel[step];
        // the sender's drop (structural) always runs, every other step is optional
        let doit: bool = if c == 4 { true } else { kani::any() };
        if !doit {
            step += 1;
            continue;
        }
        match c {
            0 | 3 => {
                if let Some(tx) = w.tx[0].as_mut() {
                    let id = next_id;
                    next_id += 1;
                    let full = sent - cur >= n;
                    if c == 0 {
                        match timed(|| F::start_send(tx, F::P::mk(id))) {
                            SS::Ready => {
                                assert!(!full, "C15: start_send accepted a value although N values are outstanding");
                                log[sent as usize % 12] = id;
                                sent += 1;
                            }
                            SS::NotReady(v) => {
                                assert!(v.id() == id, "C15: start_send returned a different message in NotReady");
                                assert!(full, "C15: start_send returned NotReady although the queue has room");
                                saw_notready_send = true;
                            }
                            SS::Err(_) => assert!(false, "C15: start_send failed although a receiver is alive"),
                        }
                    } else {
                        match F::try_send(tx, F::P::mk(id)) {
                            Ok(()) => {
                                assert!(!full, "C15: try_send accepted a value although N values are outstanding");
                                log[sent as usize % 12] = id;
                                sent += 1;
                            }
                            Err(std::sync::mpsc::TrySendError::Full(v)) => {
                                assert!(v.id() == id && full, "C15: try_send on a futures sender reported Full wrongly");
                            }
                            Err(_) => assert!(false, "C15: try_send failed although a receiver is alive"),
                        }
                    }
                }
            }
            1 => {
                let r = w.rx[0].as_mut().unwrap();
                match timed(|| F::poll(r)) {
                    Some(Some(v)) => {
                        assert!(cur < sent && v.id() == log[cur as usize % 12], "C15: the stream yielded a value the model does not predict");
                        cur += 1;
                    }
                    Some(None) => {
                        assert!(cur == sent && senders == 0, "C15: the stream ended although a sender is alive or a value is undelivered");
                        saw_end = true;
                    }
                    None => {
                        assert!(cur == sent && senders > 0, "C15: poll returned NotReady although a value or the end is available");
                        saw_notready_poll = true;
                    }
                }
            }
            2 => {
                let r = w.rx[0].as_ref().unwrap();
                match F::try_recv(r) {
                    Ok(v) => {
                        assert!(cur < sent && v.id() == log[cur as usize % 12], "C15: direct try_recv returned a value the model does not predict");
                        cur += 1;
                    }
                    Err(TryRecvError::Empty) => assert!(cur == sent && senders > 0, "C15: direct try_recv reported Empty wrongly"),
                    Err(TryRecvError::Disconnected) => assert!(cur == sent && senders == 0, "C15: direct try_recv reported Disconnected wrongly"),
                }
            }
            4 => {
                if let Some(tx) = w.tx[0].take() {
                    drop(tx);
                    senders -= 1;
                }
            }
            _ => {
                if let Some(tx) = w.tx[0].as_mut() {
                    assert!(F::poll_complete(tx), "C15: poll_complete did not report Ready");
                }
            }
        }
        step += 1;
    }
    assert!(
        !sched::st().slept,
        "C15: poll / start_send waited (slept) inside the call instead of returning NotReady at once"
    );
    kani::cover!(saw_notready_send, "start_send returned NotReady");
    kani::cover!(DEPTH < 7 || saw_notready_poll, "poll returned NotReady");
    kani::cover!(DEPTH < 10 || saw_end, "the stream yielded None");
    let _ = &w; // ManuallyDrop: never dropped
}

// ==========================================================================================
// C05 on the futures single-consumer receivers: `add_stream_with` creates a second stream.  On a
// broadcast queue both streams clone; on an mpmc (move-out) queue both would move the same value
// out of the same slot.  Sequential: into_single, add_stream_with, one send, one in-place receive
// on each stream, teardown; instrumented payload.

pub fn uni_add_stream<F: FutFl>(cap: u64) {
    payload::reset();
    sched::configure(0, 0, 0, 0);
    let mut w = World::<F>::new(cap);
    set_world::<F>(&mut *w);
    set_task(1);
    let r = w.rx[0].take().unwrap();
    match F::into_single(r) {
        Ok(u) => w.ux[0] = Some(u),
        Err(_) => unreachable!(),
    }
    w.ux[1] = Some(F::u_add_stream(w.ux[0].as_ref().unwrap()));
    let sent = F::try_send(w.tx[0].as_ref().unwrap(), F::P::mk(1)).is_ok();
    assert!(sent, "C09: a send into an empty queue was refused");
    let a = F::u_try_view(w.ux[0].as_mut().unwrap());
    let b = F::u_try_view(w.ux[1].as_mut().unwrap());
    assert!(a == Ok(1), "C01: the first stream did not deliver the value");
    assert!(b == Ok(1), "C01: the added stream did not deliver the value");
    kani::cover!(a == Ok(1) && b == Ok(1), "both streams delivered the value");
    // (no teardown here: the destructor path of the futures handles is large, and a value that
    // two streams both moved out is already caught by the payload's liveness checks above)
    let _ = &w; // ManuallyDrop: never dropped
}

// ------------------------------------------------------------------------------------------
// instances

pub type BcF00 = BcastFut<u8, 0, 0>;
pub type MpF00 = MpmcFut<u8, 0, 0>;
pub type BcF10 = BcastFut<u8, 1, 0>;
pub type MpF11 = MpmcFut<u8, 1, 1>;
use crate::scen_life::Idle;

/// every site except those in front of plain loads: the parking protocol's own steps (lock, list
/// push, notify, stores, read-modify-writes); an operation injected between two loads of the
/// try_send / try_recv inside the parking call is what the traffic harnesses (C01..C06) explore
pub const PARK_SYNC_KINDS: u16 = sched::MEM_KINDS & !((1 << 0) | (1 << 9));

macro_rules! park {
    ($name:ident, $hk:ident, $f:ty, $kind:literal, $outer:literal, $cap:literal, $n:literal, $b:literal) => {
        crate::mq_harness!($name, $hk, Runner<Park<$f, $kind>, $outer>, parked::<$f, $kind, $outer>($cap, $n, $b, sched::MEM_KINDS, 1));
    };
    ($name:ident, $hk:ident, $f:ty, $kind:literal, $outer:literal, $cap:literal, $n:literal, $b:literal, $kinds:expr, $ps:literal) => {
        crate::mq_harness!($name, $hk, Runner<Park<$f, $kind>, $outer>, parked::<$f, $kind, $outer>($cap, $n, $b, $kinds, $ps));
    };
}

park!(c14_bc_poll_vs_send, hk_c14_bc_poll_vs_send, BcF00, 1, 0, 2, 2, 1);
park!(c14_mp_poll_vs_send, hk_c14_mp_poll_vs_send, MpF00, 1, 0, 1, 1, 1);
park!(c14_mp_send_vs_poll, hk_c14_mp_send_vs_poll, MpF00, 2, 0, 1, 1, 1);
park!(c14_bc_send_vs_poll, hk_c14_bc_send_vs_poll, BcF00, 2, 0, 2, 2, 1);
park!(c14_mp_send_vs_tryrecv, hk_c14_mp_send_vs_tryrecv, MpF00, 3, 0, 1, 1, 1);
park!(c14_bc_poll_vs_droptx, hk_c14_bc_poll_vs_droptx, BcF00, 4, 0, 2, 2, 1);
park!(c14_mp_send_vs_droprx, hk_c14_mp_send_vs_droprx, MpF00, 5, 0, 1, 1, 1);
park!(c14_bc_two_polls, hk_c14_bc_two_polls, BcF00, 6, 0, 2, 2, 3, sched::MEM_KINDS, 2);
park!(c14_bc_send_vs_upoll, hk_c14_bc_send_vs_upoll, BcF00, 7, 0, 1, 1, 1);
park!(c14_bc_drop_stream_repoll, hk_c14_bc_drop_stream_repoll, BcF00, 8, 0, 1, 1, 1);
park!(c15_bc_fresh_poll, hk_c15_bc_fresh_poll, BcF00, 9, 0, 2, 2, 0);
park!(c14s_bc_poll_vs_send, hk_c14s_bc_poll_vs_send, BcF00, 1, 0, 2, 2, 1, PARK_SYNC_KINDS, 1);
park!(c14s_mp_poll_vs_send, hk_c14s_mp_poll_vs_send, MpF00, 1, 0, 1, 1, 1, PARK_SYNC_KINDS, 1);
park!(c14s_mp_send_vs_poll, hk_c14s_mp_send_vs_poll, MpF00, 2, 0, 1, 1, 1, PARK_SYNC_KINDS, 1);
park!(c14s_bc_send_vs_poll, hk_c14s_bc_send_vs_poll, BcF00, 2, 0, 2, 2, 1, PARK_SYNC_KINDS, 1);
park!(c14s_bc_poll_vs_droptx, hk_c14s_bc_poll_vs_droptx, BcF00, 4, 0, 2, 2, 1, PARK_SYNC_KINDS, 1);
park!(c14s_mp_send_vs_droprx, hk_c14s_mp_send_vs_droprx, MpF00, 5, 0, 1, 1, 1, PARK_SYNC_KINDS, 1);
// the notifying side as the preempted operation: the parking task's whole call runs inside it
park!(c14s_mp_send_o1_vs_poll, hk_c14s_mp_send_o1_vs_poll, MpF00, 1, 1, 1, 1, 1, PARK_SYNC_KINDS, 1);
park!(c14s_mp_poll_o1_vs_send, hk_c14s_mp_poll_o1_vs_send, MpF00, 2, 1, 1, 1, 1, PARK_SYNC_KINDS, 1);
park!(c14s_bc_droptx_o1_vs_poll, hk_c14s_bc_droptx_o1_vs_poll, BcF00, 4, 1, 2, 2, 1, PARK_SYNC_KINDS, 1);
park!(c14s_mp_droprx_o1_vs_send, hk_c14s_mp_droprx_o1_vs_send, MpF00, 5, 1, 1, 1, 1, PARK_SYNC_KINDS, 1);
crate::mq_harness!(c14_bc_two_sender_drops, hk_c14_bc_two_sender_drops, Runner<Park<BcF00, 10>, 0>, parked_two_sender_drops::<BcF00>(1, 1, 10));
crate::mq_harness!(c14_bc_sender_drop_repoll, hk_c14_bc_sender_drop_repoll, Runner<Park<BcF00, 11>, 0>, parked_sender_drop_repoll::<BcF00>(1, 1, 10));
crate::mq_harness!(c14_mp_sender_drop_repoll, hk_c14_mp_sender_drop_repoll, Runner<Park<MpF00, 11>, 0>, parked_sender_drop_repoll::<MpF00>(2, 2, 10));
crate::mq_harness!(c14_mp_two_sender_drops, hk_c14_mp_two_sender_drops, Runner<Park<MpF00, 10>, 0>, parked_two_sender_drops::<MpF00>(2, 2, 10));
park!(c14_bc10_poll_vs_send, hk_c14_bc10_poll_vs_send, BcF10, 1, 0, 2, 2, 1);
park!(c14_mp11_send_vs_poll, hk_c14_mp11_send_vs_poll, MpF11, 2, 0, 1, 1, 1);

macro_rules! fh {
    ($name:ident, $hk:ident, $f:ty, $depth:literal, $cap:literal, $n:literal) => {
        crate::mq_harness!($name, $hk, Idle, fut_history::<$f, $depth>($cap, $n));
    };
}
fh!(c15_bc_hist, hk_c15_bc_hist, BcF00, 10, 1, 1);
fh!(c15_bc_hist6, hk_c15_bc_hist6, BcF00, 6, 1, 1);
fh!(c15_mp_hist6, hk_c15_mp_hist6, MpF00, 6, 2, 2);
fh!(c15_mp_hist8, hk_c15_mp_hist8, MpF00, 8, 1, 1);
fh!(c15_mp_hist, hk_c15_mp_hist, MpF00, 10, 2, 2);
fh!(c15_bc10_hist, hk_c15_bc10_hist, BcF10, 10, 2, 2);

crate::mq_harness!(c05_bcfut_uni_addstream, hk_c05_bcfut_uni_addstream, Idle, uni_add_stream::<BcastFut<payload::Tok, 0, 0>>(2));
crate::mq_harness!(c05_mpfut_uni_addstream, hk_c05_mpfut_uni_addstream, Idle, uni_add_stream::<MpmcFut<payload::Tok, 0, 0>>(2));
