//! Queue flavours behind one static interface, so that a scenario is written once and
//! instantiated (monomorphically, one Kani harness each) for every handle family.

use multiqueue2::wait::{BlockingWait, BusyWait, Wait, YieldingWait};
use multiqueue2::*;
use std::marker::PhantomData;
use std::sync::mpsc::{RecvError, TryRecvError, TrySendError};

/// Payload: something that carries a small id.
pub trait Pay: Clone + Sync + Send + 'static {
    fn mk(id: u8) -> Self;
    fn id(&self) -> u8;
    /// body of an in-place view closure: returns the id it saw
    fn view(&self) -> u8 {
        crate::payload::on_view(self.id());
        self.id()
    }
}

impl Pay for u8 {
    #[inline(always)]
    fn mk(id: u8) -> u8 {
        id
    }
    #[inline(always)]
    fn id(&self) -> u8 {
        *self
    }
}

/// Wait-strategy selector for the plain queues.
pub trait WaitSel: 'static {
    type W: Wait + 'static;
    fn mk() -> Self::W;
}
pub struct Busy;
impl WaitSel for Busy {
    type W = BusyWait;
    fn mk() -> BusyWait {
        BusyWait::new()
    }
}
pub struct Yielding<const A: usize, const B: usize>;
impl<const A: usize, const B: usize> WaitSel for Yielding<A, B> {
    type W = YieldingWait;
    fn mk() -> YieldingWait {
        YieldingWait::with_spins(A, B)
    }
}
pub struct Blocking<const A: usize, const B: usize>;
impl<const A: usize, const B: usize> WaitSel for Blocking<A, B> {
    type W = BlockingWait;
    fn mk() -> BlockingWait {
        BlockingWait::with_spins(A, B)
    }
}

pub trait Fl: 'static {
    type P: Pay;
    type Tx;
    type Rx;
    type Ux;
    const BCAST: bool;
    const FUT: bool;

    fn new(cap: u64) -> (Self::Tx, Self::Rx);
    fn try_send(tx: &Self::Tx, v: Self::P) -> Result<(), TrySendError<Self::P>>;
    fn clone_tx(tx: &Self::Tx) -> Self::Tx;
    fn unsubscribe_tx(tx: Self::Tx);
    /// state injection: raise the "epoch pending" bit of the queue's signal word (what the real
    /// memory manager does after more than 20 retirements)
    fn raise_epoch_signal(tx: &Self::Tx);
    /// harness-only look at the queue state
    fn queue_view(tx: &Self::Tx) -> multiqueue2::verif_hooks::QueueView;
    /// state injection: n earlier retirements are still waiting in the (real) memory manager
    fn preload_retirements(tx: &Self::Tx, n: usize);
    /// (retire list length, current batch length) of the real memory manager
    fn pending_retirements(tx: &Self::Tx) -> (usize, usize);

    fn try_recv(rx: &Self::Rx) -> Result<Self::P, TryRecvError>;
    fn recv(rx: &Self::Rx) -> Result<Self::P, RecvError>;
    /// `rx.try_iter().next()` (plain receivers; the futures receivers have no iterators and fall
    /// back to try_recv)
    fn try_iter_next(rx: &Self::Rx) -> Option<Self::P> {
        Self::try_recv(rx).ok()
    }
    fn clone_rx(rx: &Self::Rx) -> Self::Rx;
    fn add_stream(rx: &Self::Rx) -> Self::Rx;
    fn unsubscribe_rx(rx: Self::Rx) -> bool;
    fn into_single(rx: Self::Rx) -> Result<Self::Ux, Self::Rx>;

    fn into_multi(ux: Self::Ux) -> Self::Rx;
    fn u_try_recv(ux: &mut Self::Ux) -> Result<Self::P, TryRecvError>;
    fn u_recv(ux: &mut Self::Ux) -> Result<Self::P, RecvError>;
    /// view in place; the closure is `view_hook`, which returns the id it saw
    fn u_try_view(ux: &mut Self::Ux) -> Result<u8, TryRecvError>;
    fn u_view(ux: &mut Self::Ux) -> Result<u8, RecvError>;
}

/// The closure body used for every in-place view.
#[inline(always)]
pub fn view_hook<P: Pay>(p: &P) -> u8 {
    p.view()
}

// ------------------------------------------------------------------------------------------

pub struct BcastPlain<P, W>(PhantomData<(P, W)>);

impl<P: Pay, W: WaitSel> Fl for BcastPlain<P, W> {
    type P = P;
    type Tx = BroadcastSender<P>;
    type Rx = BroadcastReceiver<P>;
    type Ux = BroadcastUniReceiver<P>;
    const BCAST: bool = true;
    const FUT: bool = false;

    fn new(cap: u64) -> (Self::Tx, Self::Rx) {
        broadcast_queue_with(cap, W::mk())
    }
    #[inline(always)]
    fn try_send(tx: &Self::Tx, v: P) -> Result<(), TrySendError<P>> {
        tx.try_send(v)
    }
    fn clone_tx(tx: &Self::Tx) -> Self::Tx {
        tx.clone()
    }
    fn unsubscribe_tx(tx: Self::Tx) {
        tx.unsubscribe()
    }
    fn raise_epoch_signal(tx: &Self::Tx) {
        tx.verif_raise_epoch_signal()
    }
    fn queue_view(tx: &Self::Tx) -> multiqueue2::verif_hooks::QueueView {
        tx.verif_view()
    }
    fn preload_retirements(tx: &Self::Tx, n: usize) {
        tx.verif_preload_retirements(n)
    }
    fn pending_retirements(tx: &Self::Tx) -> (usize, usize) {
        tx.verif_pending()
    }
    #[inline(always)]
    fn try_recv(rx: &Self::Rx) -> Result<P, TryRecvError> {
        rx.try_recv()
    }
    fn recv(rx: &Self::Rx) -> Result<P, RecvError> {
        rx.recv()
    }
    fn try_iter_next(rx: &Self::Rx) -> Option<P> {
        rx.try_iter().next()
    }
    fn clone_rx(rx: &Self::Rx) -> Self::Rx {
        rx.clone()
    }
    fn add_stream(rx: &Self::Rx) -> Self::Rx {
        rx.add_stream()
    }
    fn unsubscribe_rx(rx: Self::Rx) -> bool {
        rx.unsubscribe()
    }
    fn into_single(rx: Self::Rx) -> Result<Self::Ux, Self::Rx> {
        rx.into_single()
    }
    fn into_multi(ux: Self::Ux) -> Self::Rx {
        ux.into_multi()
    }
    fn u_try_recv(ux: &mut Self::Ux) -> Result<P, TryRecvError> {
        ux.try_recv()
    }
    fn u_recv(ux: &mut Self::Ux) -> Result<P, RecvError> {
        ux.recv()
    }
    fn u_try_view(ux: &mut Self::Ux) -> Result<u8, TryRecvError> {
        ux.try_recv_view(|p| view_hook(p)).map_err(|e| e.1)
    }
    fn u_view(ux: &mut Self::Ux) -> Result<u8, RecvError> {
        ux.recv_view(|p| view_hook(p)).map_err(|e| e.1)
    }
}

pub struct MpmcPlain<P, W>(PhantomData<(P, W)>);

impl<P: Pay, W: WaitSel> Fl for MpmcPlain<P, W> {
    type P = P;
    type Tx = MPMCSender<P>;
    type Rx = MPMCReceiver<P>;
    type Ux = MPMCUniReceiver<P>;
    const BCAST: bool = false;
    const FUT: bool = false;

    fn new(cap: u64) -> (Self::Tx, Self::Rx) {
        mpmc_queue_with(cap, W::mk())
    }
    #[inline(always)]
    fn try_send(tx: &Self::Tx, v: P) -> Result<(), TrySendError<P>> {
        tx.try_send(v)
    }
    fn clone_tx(tx: &Self::Tx) -> Self::Tx {
        tx.clone()
    }
    fn unsubscribe_tx(tx: Self::Tx) {
        tx.unsubscribe()
    }
    fn raise_epoch_signal(tx: &Self::Tx) {
        tx.verif_raise_epoch_signal()
    }
    fn queue_view(tx: &Self::Tx) -> multiqueue2::verif_hooks::QueueView {
        tx.verif_view()
    }
    fn preload_retirements(tx: &Self::Tx, n: usize) {
        tx.verif_preload_retirements(n)
    }
    fn pending_retirements(tx: &Self::Tx) -> (usize, usize) {
        tx.verif_pending()
    }
    #[inline(always)]
    fn try_recv(rx: &Self::Rx) -> Result<P, TryRecvError> {
        rx.try_recv()
    }
    fn recv(rx: &Self::Rx) -> Result<P, RecvError> {
        rx.recv()
    }
    fn try_iter_next(rx: &Self::Rx) -> Option<P> {
        rx.try_iter().next()
    }
    fn clone_rx(rx: &Self::Rx) -> Self::Rx {
        rx.clone()
    }
    fn add_stream(_rx: &Self::Rx) -> Self::Rx {
        unreachable!("plain mpmc receivers have no add_stream")
    }
    fn unsubscribe_rx(rx: Self::Rx) -> bool {
        rx.unsubscribe()
    }
    fn into_single(rx: Self::Rx) -> Result<Self::Ux, Self::Rx> {
        rx.into_single()
    }
    fn into_multi(ux: Self::Ux) -> Self::Rx {
        ux.into_multi()
    }
    fn u_try_recv(ux: &mut Self::Ux) -> Result<P, TryRecvError> {
        ux.try_recv()
    }
    fn u_recv(ux: &mut Self::Ux) -> Result<P, RecvError> {
        ux.recv()
    }
    fn u_try_view(ux: &mut Self::Ux) -> Result<u8, TryRecvError> {
        ux.try_recv_view(|p| view_hook(p)).map_err(|e| e.1)
    }
    fn u_view(ux: &mut Self::Ux) -> Result<u8, RecvError> {
        ux.recv_view(|p| view_hook(p)).map_err(|e| e.1)
    }
}

// ------------------------------------------------------------------------------------------
// futures flavours (spin counts A = try spins, B = yield spins)

use futures::task::verif as task;
use futures::{Async, AsyncSink, Sink, Stream};

pub type ViewFn<P> = fn(&P) -> u8;

/// result of `Sink::start_send`
pub enum SS<P> {
    Ready,
    NotReady(P),
    Err(P),
}

pub trait FutFl: Fl {
    fn start_send(tx: &mut Self::Tx, v: Self::P) -> SS<Self::P>;
    /// Ok(Some(Some(v))) value, Ok(Some(None)) end of stream, Ok(None) NotReady
    fn poll(rx: &mut Self::Rx) -> Option<Option<Self::P>>;
    fn u_poll(ux: &mut Self::Ux) -> Option<Option<u8>>;
    fn poll_complete(tx: &mut Self::Tx) -> bool;
    /// `add_stream_with` of the single-consumer futures receiver
    fn u_add_stream(ux: &Self::Ux) -> Self::Ux;
}

pub struct BcastFut<P, const A: usize, const B: usize>(PhantomData<P>);

impl<P: Pay, const A: usize, const B: usize> Fl for BcastFut<P, A, B> {
    type P = P;
    type Tx = BroadcastFutSender<P>;
    type Rx = BroadcastFutReceiver<P>;
    type Ux = BroadcastFutUniReceiver<u8, ViewFn<P>, P>;
    const BCAST: bool = true;
    const FUT: bool = true;

    fn new(cap: u64) -> (Self::Tx, Self::Rx) {
        broadcast_fut_queue_with(cap, A, B)
    }
    #[inline(always)]
    fn try_send(tx: &Self::Tx, v: P) -> Result<(), TrySendError<P>> {
        tx.try_send(v)
    }
    fn clone_tx(tx: &Self::Tx) -> Self::Tx {
        tx.clone()
    }
    fn unsubscribe_tx(tx: Self::Tx) {
        tx.unsubscribe()
    }
    fn raise_epoch_signal(tx: &Self::Tx) {
        tx.verif_raise_epoch_signal()
    }
    fn queue_view(tx: &Self::Tx) -> multiqueue2::verif_hooks::QueueView {
        tx.verif_view()
    }
    fn preload_retirements(tx: &Self::Tx, n: usize) {
        tx.verif_preload_retirements(n)
    }
    fn pending_retirements(tx: &Self::Tx) -> (usize, usize) {
        tx.verif_pending()
    }
    #[inline(always)]
    fn try_recv(rx: &Self::Rx) -> Result<P, TryRecvError> {
        rx.try_recv()
    }
    fn recv(rx: &Self::Rx) -> Result<P, RecvError> {
        rx.recv()
    }
    fn clone_rx(rx: &Self::Rx) -> Self::Rx {
        rx.clone()
    }
    fn add_stream(rx: &Self::Rx) -> Self::Rx {
        rx.add_stream()
    }
    fn unsubscribe_rx(rx: Self::Rx) -> bool {
        rx.unsubscribe()
    }
    fn into_single(rx: Self::Rx) -> Result<Self::Ux, Self::Rx> {
        rx.into_single(view_hook::<P> as ViewFn<P>).map_err(|e| e.1)
    }
    fn into_multi(ux: Self::Ux) -> Self::Rx {
        ux.into_multi()
    }
    fn u_try_recv(_ux: &mut Self::Ux) -> Result<P, TryRecvError> {
        unreachable!("futures uni receivers only view in place")
    }
    fn u_recv(_ux: &mut Self::Ux) -> Result<P, RecvError> {
        unreachable!("futures uni receivers only view in place")
    }
    fn u_try_view(ux: &mut Self::Ux) -> Result<u8, TryRecvError> {
        ux.try_recv()
    }
    fn u_view(ux: &mut Self::Ux) -> Result<u8, RecvError> {
        ux.recv()
    }
}

impl<P: Pay, const A: usize, const B: usize> FutFl for BcastFut<P, A, B> {
    fn start_send(tx: &mut Self::Tx, v: P) -> SS<P> {
        match tx.start_send(v) {
            Ok(AsyncSink::Ready) => SS::Ready,
            Ok(AsyncSink::NotReady(v)) => SS::NotReady(v),
            Err(e) => SS::Err(e.0),
        }
    }
    fn poll(rx: &mut Self::Rx) -> Option<Option<P>> {
        match rx.poll() {
            Ok(Async::Ready(x)) => Some(x),
            Ok(Async::NotReady) => None,
            Err(()) => unreachable!(),
        }
    }
    fn u_poll(ux: &mut Self::Ux) -> Option<Option<u8>> {
        match ux.poll() {
            Ok(Async::Ready(x)) => Some(x),
            Ok(Async::NotReady) => None,
            Err(()) => unreachable!(),
        }
    }
    fn poll_complete(tx: &mut Self::Tx) -> bool {
        matches!(tx.poll_complete(), Ok(Async::Ready(())))
    }
    fn u_add_stream(ux: &Self::Ux) -> Self::Ux {
        ux.add_stream_with(view_hook::<P> as ViewFn<P>)
    }
}

pub struct MpmcFut<P, const A: usize, const B: usize>(PhantomData<P>);

impl<P: Pay, const A: usize, const B: usize> Fl for MpmcFut<P, A, B> {
    type P = P;
    type Tx = MPMCFutSender<P>;
    type Rx = MPMCFutReceiver<P>;
    type Ux = MPMCFutUniReceiver<u8, ViewFn<P>, P>;
    const BCAST: bool = false;
    const FUT: bool = true;

    fn new(cap: u64) -> (Self::Tx, Self::Rx) {
        multiqueue2::verif_hooks::mpmc_fut_queue_with(cap, A, B)
    }
    #[inline(always)]
    fn try_send(tx: &Self::Tx, v: P) -> Result<(), TrySendError<P>> {
        tx.try_send(v)
    }
    fn clone_tx(tx: &Self::Tx) -> Self::Tx {
        tx.clone()
    }
    fn unsubscribe_tx(tx: Self::Tx) {
        tx.unsubscribe()
    }
    fn raise_epoch_signal(tx: &Self::Tx) {
        tx.verif_raise_epoch_signal()
    }
    fn queue_view(tx: &Self::Tx) -> multiqueue2::verif_hooks::QueueView {
        tx.verif_view()
    }
    fn preload_retirements(tx: &Self::Tx, n: usize) {
        tx.verif_preload_retirements(n)
    }
    fn pending_retirements(tx: &Self::Tx) -> (usize, usize) {
        tx.verif_pending()
    }
    #[inline(always)]
    fn try_recv(rx: &Self::Rx) -> Result<P, TryRecvError> {
        rx.try_recv()
    }
    fn recv(rx: &Self::Rx) -> Result<P, RecvError> {
        rx.recv()
    }
    fn clone_rx(rx: &Self::Rx) -> Self::Rx {
        rx.clone()
    }
    fn add_stream(_rx: &Self::Rx) -> Self::Rx {
        unreachable!("mpmc futures receivers have no add_stream")
    }
    fn unsubscribe_rx(rx: Self::Rx) -> bool {
        rx.unsubscribe()
    }
    fn into_single(rx: Self::Rx) -> Result<Self::Ux, Self::Rx> {
        rx.into_single(view_hook::<P> as ViewFn<P>).map_err(|e| e.1)
    }
    fn into_multi(ux: Self::Ux) -> Self::Rx {
        ux.into_multi()
    }
    fn u_try_recv(_ux: &mut Self::Ux) -> Result<P, TryRecvError> {
        unreachable!("futures uni receivers only view in place")
    }
    fn u_recv(_ux: &mut Self::Ux) -> Result<P, RecvError> {
        unreachable!("futures uni receivers only view in place")
    }
    fn u_try_view(ux: &mut Self::Ux) -> Result<u8, TryRecvError> {
        ux.try_recv()
    }
    fn u_view(ux: &mut Self::Ux) -> Result<u8, RecvError> {
        ux.recv()
    }
}

impl<P: Pay, const A: usize, const B: usize> FutFl for MpmcFut<P, A, B> {
    fn start_send(tx: &mut Self::Tx, v: P) -> SS<P> {
        match tx.start_send(v) {
            Ok(AsyncSink::Ready) => SS::Ready,
            Ok(AsyncSink::NotReady(v)) => SS::NotReady(v),
            Err(e) => SS::Err(e.0),
        }
    }
    fn poll(rx: &mut Self::Rx) -> Option<Option<P>> {
        match rx.poll() {
            Ok(Async::Ready(x)) => Some(x),
            Ok(Async::NotReady) => None,
            Err(()) => unreachable!(),
        }
    }
    fn u_poll(ux: &mut Self::Ux) -> Option<Option<u8>> {
        match ux.poll() {
            Ok(Async::Ready(x)) => Some(x),
            Ok(Async::NotReady) => None,
            Err(()) => unreachable!(),
        }
    }
    fn poll_complete(tx: &mut Self::Tx) -> bool {
        matches!(tx.poll_complete(), Ok(Async::Ready(())))
    }
    fn u_add_stream(ux: &Self::Ux) -> Self::Ux {
        ux.add_stream_with(view_hook::<P> as ViewFn<P>)
    }
}

pub fn set_task(id: usize) {
    task::set_current(id);
}
pub fn notify_count(id: usize) -> usize {
    task::notify_count(id)
}
