//! Handles of a scenario ("world"), the instrumented operations on them, the actor runner and
//! the quiescent probe.

use crate::fl::*;
use crate::ledger::{self, *};
use crate::sched::{self, Scenario};
use std::marker::PhantomData;
use std::sync::mpsc::{TryRecvError, TrySendError};

pub const NTX: usize = 3;
pub const NRX: usize = 4;
pub const NUX: usize = 2;

pub struct World<F: Fl> {
    pub tx: [Option<F::Tx>; NTX],
    pub rx: [Option<F::Rx>; NRX],
    pub ux: [Option<F::Ux>; NUX],
    /// logical stream number of each receiver slot
    pub rx_stream: [u8; NRX],
    pub ux_stream: [u8; NUX],
}

impl<F: Fl> World<F> {
    /// The world is never dropped implicitly (not even when a failed assertion unwinds in the
    /// native replay): concurrent-phase drops leave stale handle bytes in the slots (see
    /// `op_drop_tx`), so teardown is always explicit.
    pub fn new(cap: u64) -> std::mem::ManuallyDrop<World<F>> {
        let (tx, rx) = F::new(cap);
        std::mem::ManuallyDrop::new(World {
            tx: [Some(tx), None, None],
            rx: [Some(rx), None, None, None],
            ux: [None, None],
            rx_stream: [0; NRX],
            ux_stream: [0; NUX],
        })
    }
}

static mut WORLD_PTR: *mut () = std::ptr::null_mut();

pub fn set_world<F: Fl>(w: *mut World<F>) {
    unsafe {
        WORLD_PTR = w as *mut ();
    }
}

#[inline(always)]
pub fn wp<F: Fl>() -> *mut World<F> {
    unsafe { WORLD_PTR as *mut World<F> }
}

#[inline(always)]
fn tx_ref<F: Fl>(i: usize) -> &'static F::Tx {
    unsafe { (*std::ptr::addr_of!((*wp::<F>()).tx[i])).as_ref().unwrap() }
}
#[inline(always)]
fn rx_ref<F: Fl>(i: usize) -> &'static F::Rx {
    unsafe { (*std::ptr::addr_of!((*wp::<F>()).rx[i])).as_ref().unwrap() }
}
#[inline(always)]
fn ux_mut<F: Fl>(i: usize) -> &'static mut F::Ux {
    unsafe { (*std::ptr::addr_of_mut!((*wp::<F>()).ux[i])).as_mut().unwrap() }
}
#[inline(always)]
pub fn rx_stream<F: Fl>(i: usize) -> u8 {
    unsafe { (*wp::<F>()).rx_stream[i] }
}

// ------------------------------------------------------------------------------------------
// instrumented operations (slot = ledger record)

pub fn op_send<F: Fl>(slot: usize, tx: usize, id: u8) {
    ledger::begin(slot);
    let r = F::try_send(tx_ref::<F>(tx), F::P::mk(id));
    let res = match r {
        Ok(()) => R_OK,
        Err(TrySendError::Full(v)) => {
            assert!(v.id() == id, "C03: a refused send handed back a different value");
            R_FULL
        }
        Err(TrySendError::Disconnected(v)) => {
            assert!(v.id() == id, "C13: a disconnected send handed back a different value");
            R_DISC
        }
    };
    ledger::end_send(slot, res);
}

pub fn op_recv<F: Fl>(slot: usize, rx: usize) {
    ledger::begin(slot);
    let r = F::try_recv(rx_ref::<F>(rx));
    match r {
        Ok(v) => ledger::end_recv(slot, R_OK, v.id()),
        Err(TryRecvError::Empty) => ledger::end_recv(slot, R_EMPTY, 0),
        Err(TryRecvError::Disconnected) => ledger::end_recv(slot, R_DISC, 0),
    }
}

pub fn op_recv_blocking<F: Fl>(slot: usize, rx: usize) {
    ledger::begin(slot);
    match F::recv(rx_ref::<F>(rx)) {
        Ok(v) => ledger::end_recv(slot, R_OK, v.id()),
        Err(_) => ledger::end_recv(slot, R_DISC, 0),
    }
}

pub fn op_u_recv<F: Fl>(slot: usize, ux: usize) {
    ledger::begin(slot);
    match F::u_try_recv(ux_mut::<F>(ux)) {
        Ok(v) => ledger::end_recv(slot, R_OK, v.id()),
        Err(TryRecvError::Empty) => ledger::end_recv(slot, R_EMPTY, 0),
        Err(TryRecvError::Disconnected) => ledger::end_recv(slot, R_DISC, 0),
    }
}

pub fn op_u_view<F: Fl>(slot: usize, ux: usize) {
    ledger::begin(slot);
    match F::u_try_view(ux_mut::<F>(ux)) {
        Ok(id) => ledger::end_recv(slot, R_OK, id),
        Err(TryRecvError::Empty) => ledger::end_recv(slot, R_EMPTY, 0),
        Err(TryRecvError::Disconnected) => ledger::end_recv(slot, R_DISC, 0),
    }
}

pub fn op_clone_tx<F: Fl>(slot: usize, from: usize, to: usize) {
    ledger::begin(slot);
    let t = F::clone_tx(tx_ref::<F>(from));
    unsafe {
        std::ptr::write(std::ptr::addr_of_mut!((*wp::<F>()).tx[to]), Some(t));
    }
    ledger::end_other(slot);
}

// Dropping a handle inside the concurrent phase moves it out of its world slot *bitwise* and leaves
// the slot's bytes untouched.  Writing `None` there at a solver-chosen time would make every later
// (infeasible, but syntactically present) use of the slot branch on a symbolic Option / enum-niche
// byte, which multiplies the explored paths (measured: a 15-minute timeout became minutes).  A
// scenario never touches a handle after dropping it, and worlds are `mem::forget`-ten at the end,
// so the stale bytes are never dropped again; scenarios with an explicit teardown forget the slots
// their programs dropped (see `scen_traffic::traffic`).
pub fn op_drop_tx<F: Fl>(slot: usize, tx: usize) {
    ledger::begin(slot);
    let t: Option<F::Tx> = unsafe { std::ptr::read(std::ptr::addr_of!((*wp::<F>()).tx[tx])) };
    drop(t);
    ledger::end_other(slot);
}

pub fn op_clone_rx<F: Fl>(slot: usize, from: usize, to: usize) {
    ledger::begin(slot);
    let r = F::clone_rx(rx_ref::<F>(from));
    unsafe {
        std::ptr::write(std::ptr::addr_of_mut!((*wp::<F>()).rx[to]), Some(r));
        (*wp::<F>()).rx_stream[to] = (*wp::<F>()).rx_stream[from];
    }
    ledger::end_other(slot);
}

pub fn op_drop_rx<F: Fl>(slot: usize, rx: usize) {
    ledger::begin(slot);
    let r: Option<F::Rx> = unsafe { std::ptr::read(std::ptr::addr_of!((*wp::<F>()).rx[rx])) };
    drop(r);
    ledger::end_other(slot);
}

/// returns what `unsubscribe` reported
pub fn op_unsub_rx<F: Fl>(slot: usize, rx: usize) -> bool {
    ledger::begin(slot);
    let r: Option<F::Rx> = unsafe { std::ptr::read(std::ptr::addr_of!((*wp::<F>()).rx[rx])) };
    let b = F::unsubscribe_rx(r.unwrap());
    ledger::end_other(slot);
    b
}

pub fn op_add_stream<F: Fl>(slot: usize, from: usize, to: usize, new_stream: u8) {
    ledger::begin(slot);
    let r = F::add_stream(rx_ref::<F>(from));
    unsafe {
        std::ptr::write(std::ptr::addr_of_mut!((*wp::<F>()).rx[to]), Some(r));
        (*wp::<F>()).rx_stream[to] = new_stream;
    }
    ledger::end_other(slot);
}

/// returns true if the conversion succeeded (the handle then lives in ux[to])
pub fn op_into_single<F: Fl>(slot: usize, rx: usize, to: usize) -> bool {
    ledger::begin(slot);
    let r = unsafe { (*std::ptr::addr_of_mut!((*wp::<F>()).rx[rx])).take() }.unwrap();
    let ok = match F::into_single(r) {
        Ok(u) => {
            unsafe {
                std::ptr::write(std::ptr::addr_of_mut!((*wp::<F>()).ux[to]), Some(u));
                (*wp::<F>()).ux_stream[to] = (*wp::<F>()).rx_stream[rx];
            }
            true
        }
        Err(r) => {
            unsafe {
                std::ptr::write(std::ptr::addr_of_mut!((*wp::<F>()).rx[rx]), Some(r));
            }
            false
        }
    };
    ledger::end_other(slot);
    ok
}

pub fn op_into_multi<F: Fl>(slot: usize, ux: usize, to: usize) {
    ledger::begin(slot);
    let u = unsafe { (*std::ptr::addr_of_mut!((*wp::<F>()).ux[ux])).take() }.unwrap();
    let r = F::into_multi(u);
    unsafe {
        std::ptr::write(std::ptr::addr_of_mut!((*wp::<F>()).rx[to]), Some(r));
        (*wp::<F>()).rx_stream[to] = (*wp::<F>()).ux_stream[ux];
    }
    ledger::end_other(slot);
}

// ------------------------------------------------------------------------------------------
// actor programs

pub const MAXACT: usize = 4;

/// A scenario's concurrent phase: up to four actors, each a fixed list of operations.
pub trait Prog: 'static {
    const NACT: usize;
    const LEN: [u8; MAXACT];
    /// ledger slot of operation k of actor a is BASE[a] + k
    const BASE: [usize; MAXACT];
    /// run operation `k` of actor `a` (both concrete at every call site)
    fn step(a: usize, k: usize);
    /// stuck detector verdict for the outer operation (see `sched::Scenario::stuck`)
    fn stuck() {
        kani::assume(false);
    }
}

pub static mut PC: [u8; MAXACT] = [0; MAXACT];

#[inline(always)]
fn pc(a: usize) -> u8 {
    unsafe { PC[a] }
}
#[inline(always)]
fn set_pc(a: usize, v: u8) {
    unsafe { PC[a] = v }
}

/// Runs the next operation of actor `a`; its program counter may be symbolic.
#[inline(always)]
fn run_next<P: Prog>(a: usize) {
    let k = pc(a);
    kani::assume(k < P::LEN[a]);
    set_pc(a, k + 1);
    // concrete dispatch: one arm per possible value of the (possibly symbolic) counter
    if k == 0 {
        P::step(a, 0)
    } else if P::LEN[a] > 1 && k == 1 {
        P::step(a, 1)
    } else if P::LEN[a] > 2 && k == 2 {
        P::step(a, 2)
    } else if P::LEN[a] > 3 {
        P::step(a, 3)
    }
}

/// Scheduler glue: actor `OUTER` runs on the harness stack, all others are injected.
pub struct Runner<P: Prog, const OUTER: usize>(PhantomData<P>);

impl<P: Prog, const OUTER: usize> Scenario for Runner<P, OUTER> {
    #[inline(always)]
    fn inject(choice: u8) {
        // choice 1..: the (choice-1)-th actor other than OUTER
        let mut a = 0;
        let mut idx = 1;
        let mut done = false;
        while a < P::NACT {
            if a != OUTER {
                if choice == idx {
                    run_next::<P>(a);
                    done = true;
                }
                idx += 1;
            }
            a += 1;
        }
        kani::assume(done);
    }
    #[inline(always)]
    fn others_done() -> bool {
        let mut a = 0;
        let mut all = true;
        while a < P::NACT {
            if a != OUTER && pc(a) < P::LEN[a] {
                all = false;
            }
            a += 1;
        }
        all
    }
    fn others_ops() -> u8 {
        let mut n = 0;
        let mut a = 0;
        while a < P::NACT {
            if a != OUTER {
                n += P::LEN[a];
            }
            a += 1;
        }
        n
    }
    fn stuck() {
        P::stuck();
        kani::assume(false);
    }
}

/// Concurrent phase: OUTER's operations with the others injected at preemption points, then
/// whatever the others have left, in actor order.
pub fn run_concurrent<P: Prog, const OUTER: usize>() {
    unsafe {
        PC = [0; MAXACT];
    }
    sched::enable();
    let mut k = 0;
    while k < P::LEN[OUTER] as usize {
        sched::op_begin();
        set_pc(OUTER, k as u8 + 1);
        P::step(OUTER, k);
        sched::op_end();
        k += 1;
    }
    sched::disable();
    let mut a = 0;
    while a < P::NACT {
        if a != OUTER {
            let mut k = 0;
            while k < P::LEN[a] as usize {
                if pc(a) as usize <= k {
                    sched::op_begin();
                    P::step(a, k);
                    sched::op_end();
                }
                k += 1;
            }
            set_pc(a, P::LEN[a]);
        }
        a += 1;
    }
}

// ------------------------------------------------------------------------------------------
// quiescent probe

/// Fill until refused using `tx`, with ids `first_id..`, at most `max` sends; record slots from
/// `slot0`.  Returns how many were accepted.
pub fn probe_fill<F: Fl>(slot0: usize, tx: usize, first_id: u8, max: usize) -> u8 {
    let mut n = 0u8;
    let mut i = 0;
    let mut stopped = false;
    while i < max {
        // declared unconditionally: the static part of every record stays concrete
        let slot = slot0 + i;
        ledger::declare_send(slot, 9, first_id + i as u8);
        ledger::mark_quiescent(slot);
        if !stopped {
            op_send::<F>(slot, tx, first_id + i as u8);
            if lg().recs[slot].res == R_OK {
                n += 1;
            } else {
                stopped = true;
            }
        }
        i += 1;
    }
    n
}

/// Drain receiver slot `rx` until it stops yielding values, at most `max` receives; records from
/// `slot0`.  Returns the result code of the receive that ended the drain (R_EMPTY / R_DISC), or
/// R_OK if `max` values were obtained without reaching the end.
pub fn drain<F: Fl>(slot0: usize, rx: usize, max: usize) -> u8 {
    let stream = rx_stream::<F>(rx);
    let mut last = R_OK;
    let mut i = 0;
    while i < max {
        let slot = slot0 + i;
        ledger::declare_recv(slot, 9, stream);
        ledger::mark_quiescent(slot);
        if last == R_OK {
            op_recv::<F>(slot, rx);
            last = lg().recs[slot].res;
        }
        i += 1;
    }
    last
}

/// State injection "a reclamation-epoch announcement is pending" (what more than 20 retirements -
/// e.g. seven add_stream/drop cycles - lead to).  Under Kani the memory manager is stubbed, so the
/// signal bit is raised directly; in the native replay the real manager runs, so the 21 retirements
/// are really performed (which raises the bit through MemoryManager::start_free and leaves the
/// manager in the matching state - a bare bit would be cleared again by the next real free()).
pub fn inject_epoch_pending<F: Fl>(tx: &F::Tx) {
    F::raise_epoch_signal(tx);
    #[cfg(not(kani))]
    F::preload_retirements(tx, 21);
}
