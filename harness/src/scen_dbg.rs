//! cost probes (not part of any check)
use crate::finish::*;
use crate::fl::*;
use crate::ledger;
use crate::sched;
use crate::world::*;
use std::marker::PhantomData;

pub struct D1<F>(PhantomData<F>);
impl<F: Fl> Prog for D1<F> {
    const NACT: usize = 2;
    const LEN: [u8; MAXACT] = [1, 1, 0, 0];
    const BASE: [usize; MAXACT] = [0, 4, 0, 0];
    #[inline(always)]
    fn step(a: usize, _k: usize) {
        match a {
            0 => op_send::<F>(0, 0, 1),
            _ => op_recv::<F>(4, 0),
        }
    }
}

pub fn d1<F: Fl, const OUTER: usize>(cap: u64, n: u8, budget: u8, fin: bool, multi: bool) {
    ledger::reset();
    sched::configure(1, budget, sched::MEM_KINDS, 1);
    let mut w = World::<F>::new(cap);
    set_world::<F>(&mut w);
    if multi {
        w.tx[1] = Some(F::clone_tx(w.tx[0].as_ref().unwrap()));
    }
    ledger::declare_send(0, 0, 1);
    ledger::declare_recv(4, 1, 0);
    run_concurrent::<D1<F>, OUTER>();
    kani::cover!(sched::st().injected > 0, "an operation ran at a preemption point");
    if fin {
        finish::<F>(&Finish { n, nstreams: 1, full: 1, drain_rx: [0, 0, 0], probe_tx: 0, probe_id0: 5 });
    }
    std::mem::forget(w);
}

type MpB = MpmcPlain<u8, Busy>;
crate::mq_harness!(h_dbg_seq, hk_dbg_seq, Runner<D1<MpB>, 0>, d1::<MpB, 0>(2, 2, 0, false, false));
crate::mq_harness!(h_dbg_seq_fin, hk_dbg_seq_fin, Runner<D1<MpB>, 0>, d1::<MpB, 0>(2, 2, 0, true, false));
crate::mq_harness!(h_dbg_inj, hk_dbg_inj, Runner<D1<MpB>, 0>, d1::<MpB, 0>(2, 2, 1, false, false));
crate::mq_harness!(h_dbg_inj_fin, hk_dbg_inj_fin, Runner<D1<MpB>, 0>, d1::<MpB, 0>(2, 2, 1, true, false));
crate::mq_harness!(h_dbg_inj_multi, hk_dbg_inj_multi, Runner<D1<MpB>, 0>, d1::<MpB, 0>(2, 2, 1, false, true));
