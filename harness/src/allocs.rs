//! Allocation accounting fed by the guarded hook in `/repo/src/alloc.rs`.

pub struct Allocs {
    pub live: i32,
    pub total_allocs: u32,
    pub total_frees: u32,
    pub live_bytes: i64,
}

pub static mut ALLOCS: Allocs = Allocs {
    live: 0,
    total_allocs: 0,
    total_frees: 0,
    live_bytes: 0,
};

#[inline(always)]
pub fn al() -> &'static mut Allocs {
    unsafe { &mut *std::ptr::addr_of_mut!(ALLOCS) }
}

pub fn event(is_alloc: bool, _addr: usize, bytes: usize) {
    let a = al();
    if is_alloc {
        a.live += 1;
        a.total_allocs += 1;
        a.live_bytes += bytes as i64;
    } else {
        a.live -= 1;
        a.total_frees += 1;
        a.live_bytes -= bytes as i64;
    }
}
