//! Instrumented payloads (filled in for C04/C05); plain `u8` payloads call nothing here.

#[inline(always)]
pub fn on_view(_id: u8) {}
