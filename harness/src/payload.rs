//! Instrumented payload for C04 / C05: every instance has an identity, Clone and Drop keep a
//! liveness table, and Clone / the view closure contain a scheduling point in the middle so that
//! "descheduled in the middle of clone()" is a preemption site like any other.

use crate::fl::Pay;
use multiqueue2::verif_hooks::rt;

pub const MAXINST: usize = 24;
/// scheduling-point kind of the payload hooks (continues the rt::K_* numbering)
pub const K_PAYLOAD: u8 = 12;
/// scheduling point inside the payload's destructor (a separate kind so that "inside Clone / view"
/// windows do not also pay for every destructor)
pub const K_PAYLOAD_DROP: u8 = 14;

pub struct Table {
    pub next: usize,
    /// instance is alive (created and not yet dropped)
    pub alive: [bool; MAXINST],
    pub id_of: [u8; MAXINST],
    pub created: u32,
    pub dropped: u32,
    /// instances currently inside a clone()/view (for "destroyed while read" checks)
    pub reading: u32,
    pub overflow: bool,
}

pub static mut TABLE: Table = Table {
    next: 0,
    alive: [false; MAXINST],
    id_of: [0; MAXINST],
    created: 0,
    dropped: 0,
    reading: 0,
    overflow: false,
};

#[inline(always)]
pub fn tb() -> &'static mut Table {
    unsafe { &mut *std::ptr::addr_of_mut!(TABLE) }
}

pub fn reset() {
    let t = tb();
    t.next = 0;
    t.alive = [false; MAXINST];
    t.id_of = [0; MAXINST];
    t.created = 0;
    t.dropped = 0;
    t.reading = 0;
    t.overflow = false;
}

fn new_inst(id: u8) -> usize {
    let t = tb();
    let i = t.next;
    if i >= MAXINST {
        t.overflow = true;
        kani::assume(false);
    }
    t.next = i + 1;
    t.alive[i] = true;
    t.id_of[i] = id;
    t.created += 1;
    i
}

/// Payload with identity.  `chk` is the complement of `id`: a torn or stale value shows up as a
/// mismatch.
pub struct Tok {
    pub id: u8,
    pub chk: u8,
    pub inst: usize,
}

// The broadcast uni receiver needs T: Sync; Tok is plain data.
unsafe impl Sync for Tok {}
unsafe impl Send for Tok {}

impl Tok {
    /// (instance is alive, value is complete and is the value that instance was created with)
    #[inline(always)]
    fn status(&self) -> (bool, bool) {
        let t = tb();
        let i = self.inst;
        let alive = i < MAXINST && t.alive[i];
        let intact = self.chk == !self.id && i < MAXINST && t.id_of[i] == self.id;
        (alive, intact)
    }
}

impl Pay for Tok {
    fn mk(id: u8) -> Tok {
        Tok {
            id,
            chk: !id,
            inst: new_inst(id),
        }
    }
    #[inline(always)]
    fn id(&self) -> u8 {
        self.id
    }
    fn view(&self) -> u8 {
        view_tok(self)
    }
}

impl Clone for Tok {
    fn clone(&self) -> Tok {
        let (alive, intact) = self.status();
        assert!(alive, "C04: a consumer was handed a value that had already been destroyed");
        assert!(intact, "C04: a consumer observed an incomplete or foreign value");
        let (id0, inst0) = (self.id, self.inst);
        // the clone takes a while: anything may run here
        rt::point(K_PAYLOAD, self as *const Tok as usize);
        assert!(
            self.id == id0 && self.inst == inst0,
            "C04: a slot was overwritten while a consumer was cloning it"
        );
        let (alive, intact) = self.status();
        assert!(alive, "C04: a value was destroyed while a consumer was cloning it");
        assert!(intact, "C04: a value changed while a consumer was cloning it");
        Tok {
            id: self.id,
            chk: self.chk,
            inst: new_inst(self.id),
        }
    }
}

impl Drop for Tok {
    fn drop(&mut self) {
        let t = tb();
        let i = self.inst;
        assert!(i < MAXINST, "C05: a payload that was never created was dropped");
        assert!(t.alive[i], "C05: a payload was dropped twice");
        t.alive[i] = false;
        t.dropped += 1;
        // the destructor takes a while too: anything may run here; the memory being destroyed
        // must stay this value until the destructor returns
        let (id0, chk0) = (self.id, self.chk);
        rt::point(K_PAYLOAD_DROP, self as *const Tok as usize);
        assert!(
            self.inst == i && self.id == id0 && self.chk == chk0,
            "C05: a slot was overwritten while the value in it was being destroyed"
        );
    }
}

/// Body of the view closures (`fl::view_hook`): the reference must stay valid across a
/// scheduling point.  Plain `u8` payloads have no identity, so only the point is taken.
#[inline(always)]
pub fn on_view(_id: u8) {
    rt::point(K_PAYLOAD, 0);
}

/// View hook for `Tok`.
pub fn view_tok(p: &Tok) -> u8 {
    let (alive, intact) = p.status();
    assert!(alive, "C04: a view closure was handed a value that had already been destroyed");
    assert!(intact, "C04: a view closure observed an incomplete or foreign value");
    let (id0, inst0) = (p.id, p.inst);
    rt::point(K_PAYLOAD, p as *const Tok as usize);
    assert!(
        p.id == id0 && p.inst == inst0,
        "C04: a slot was overwritten while a view closure was reading it"
    );
    let (alive, intact) = p.status();
    assert!(alive, "C04: a value was destroyed while a view closure was reading it");
    assert!(intact, "C04: a value changed while a view closure was reading it");
    p.id
}

/// number of instances alive right now
pub fn n_alive() -> u32 {
    let t = tb();
    t.created - t.dropped
}
