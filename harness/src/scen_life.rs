//! Life-cycle scenarios: sender disconnect (C07), add_stream (C10), stream removal (C11),
//! handle churn (C12), no receivers left (C13).

use crate::finish::*;
use crate::fl::*;
use crate::ledger::{self, lg, *};
use crate::payload;
use crate::sched;
use crate::world::*;
use std::marker::PhantomData;

#[derive(Clone, Copy)]
pub struct LifeCfg {
    /// the prefix runs exactly pre_send sends and pre_recv receives (a concrete resting state: the
    /// heavy scenarios cannot afford the symbolic one)
    pub exact: bool,
    pub cap: u64,
    pub n: u8,
    pub depth: u8,
    pub budget: u8,
    pub kinds: u16,
    pub per_site: u8,
    pub pre_send: u8,
    pub pre_recv: u8,
    /// forced-site mode of the scheduler: 0 = off, else the site (see sched::force)
    pub force_site: u16,
}

/// list-changing operations are heavy as injected operations: one per site, small prefix
pub const LR: LifeCfg = LifeCfg {
    exact: true,
    cap: 2,
    n: 2,
    depth: 1,
    budget: 2,
    kinds: sched::MEM_KINDS | (1 << payload::K_PAYLOAD),
    per_site: 1,
    pre_send: 1,
    pre_recv: 1,
    force_site: 0,
};

pub const LQ: LifeCfg = LifeCfg {
    exact: false,
    cap: 2,
    n: 2,
    depth: 1,
    budget: 2,
    kinds: sched::MEM_KINDS | (1 << payload::K_PAYLOAD),
    per_site: 2,
    pre_send: 2,
    pre_recv: 2,
    force_site: 0,
};

/// symbolic prefix: ps sends by tx0 (ids 5..), then pr receives on receiver slot 0
fn prefix<F: Fl>(c: &LifeCfg) {
    if c.pre_send == 0 {
        return;
    }
    let ps: u8 = if c.exact { c.pre_send } else { kani::any() };
    kani::assume(ps <= c.pre_send);
    let mut i = 0;
    while i < c.pre_send {
        let slot = PRE_SEND_SLOT0 + i as usize;
        ledger::declare_send(slot, 8, 5 + i);
        if i < ps {
            op_send::<F>(slot, 0, 5 + i);
        }
        i += 1;
    }
    let pr: u8 = if c.exact { c.pre_recv } else { kani::any() };
    kani::assume(pr <= c.pre_recv && pr <= ps);
    let mut i = 0;
    while i < c.pre_recv {
        let slot = PRE_RECV_SLOT0 + i as usize;
        ledger::declare_recv(slot, 8, 0);
        if i < pr {
            op_recv::<F>(slot, 0);
        }
        i += 1;
    }
}

// ==========================================================================================
// C07: sender disconnect
//   topology D=1: one sender.   actor 0: send 1, drop tx0        actor 1: rx0 receives x3
//   topology D=2: two senders.  actor 0: send 1, drop tx0   actor 1: send 3, drop tx1
//                               actor 2: rx0 receives x2

pub struct Disc<F, const D: u8, const VIEW: bool>(PhantomData<F>);

impl<F: Fl, const D: u8, const VIEW: bool> Prog for Disc<F, D, VIEW> {
    const NACT: usize = if D == 1 { 2 } else { 3 };
    const LEN: [u8; MAXACT] = if D == 1 { [2, 3, 0, 0] } else { [2, 2, 2, 0] };
    const BASE: [usize; MAXACT] = [0, 4, 8, 0];
    #[inline(always)]
    fn step(a: usize, k: usize) {
        match (D, a, k) {
            (_, 0, 0) => op_send::<F>(0, 0, 1),
            (_, 0, _) => op_drop_tx::<F>(1, 0),
            (1, _, _) => {
                if VIEW {
                    op_u_view::<F>(4 + k, 0)
                } else {
                    op_recv::<F>(4 + k, 0)
                }
            }
            (_, 1, 0) => op_send::<F>(4, 1, 3),
            (_, 1, _) => op_drop_tx::<F>(5, 1),
            (_, _, _) => {
                if VIEW {
                    op_u_view::<F>(8 + k, 0)
                } else {
                    op_recv::<F>(8 + k, 0)
                }
            }
        }
    }
}

/// "the end" may only be reported once every sender's drop has been called and every accepted
/// value has been delivered to the stream; once reported it is reported forever.
pub fn check_c07(stream: u8, drop_slots: &[usize]) {
    let l = lg();
    let mut i = 0;
    while i < MAXREC {
        let r = l.recs[i];
        if r.kind == OP_RECV && r.stream == stream && r.res == R_DISC {
            for &d in drop_slots {
                let dr = l.recs[d];
                assert!(
                    dr.tb != 0 && dr.tb < r.te,
                    "C07: the end of the stream was reported while a sender handle was still alive"
                );
            }
            let mut x = 1;
            while x < MAXID {
                if accepted(x) {
                    // delivered by a receive on this stream that began before this one returned
                    let mut got = false;
                    let mut j = 0;
                    while j < MAXREC {
                        let q = l.recs[j];
                        if q.kind == OP_RECV && q.stream == stream && q.res == R_OK && q.id == x as u8 && q.tb < r.te {
                            got = true;
                        }
                        j += 1;
                    }
                    assert!(
                        got,
                        "C07: the end of the stream was reported while an accepted value was still undelivered"
                    );
                }
                x += 1;
            }
            // sticky: no later receive on this stream reports anything else
            let mut j = 0;
            while j < MAXREC {
                let q = l.recs[j];
                if q.kind == OP_RECV && q.stream == stream && q.res != R_NONE && q.tb > r.te {
                    assert!(
                        q.res == R_DISC,
                        "C07: after the end of the stream was reported a later receive reported something else"
                    );
                }
                j += 1;
            }
        }
        i += 1;
    }
}

pub fn disconnect<F: Fl, const D: u8, const VIEW: bool, const OUTER: usize>(c: &LifeCfg) {
    ledger::reset();
    payload::reset();
    sched::configure(c.depth, c.budget, c.kinds, c.per_site);
    let mut w = World::<F>::new(c.cap);
    set_world::<F>(&mut *w);
    if D == 2 {
        w.tx[1] = Some(F::clone_tx(w.tx[0].as_ref().unwrap()));
    }
    ledger::declare_send(0, 0, 1);
    ledger::declare_other(1, 0);
    if D == 1 {
        for k in 0..3 {
            ledger::declare_recv(4 + k, 1, 0);
        }
    } else {
        ledger::declare_send(4, 1, 3);
        ledger::declare_other(5, 1);
        for k in 0..2 {
            ledger::declare_recv(8 + k, 2, 0);
        }
    }
    prefix::<F>(c);
    if VIEW {
        let r = w.rx[0].take().unwrap();
        match F::into_single(r) {
            Ok(u) => w.ux[0] = Some(u),
            Err(_) => unreachable!(),
        }
    }
    run_concurrent::<Disc<F, D, VIEW>, OUTER>();
    kani::cover!(sched::st().injected > 0, "an operation ran at a preemption point");
    if VIEW {
        let u = w.ux[0].take().unwrap();
        w.rx[0] = Some(F::into_multi(u));
    }
    // quiescence: all senders are gone; the stream drains what is left and then reports the end
    let last = drain::<F>(DRAIN_SLOT0, 0, c.n as usize + 2);
    assert!(
        last == R_DISC,
        "C07: with every sender gone a drained stream must report the end, not Empty"
    );
    // ... and keeps reporting it
    let slot = DRAIN_SLOT0 + c.n as usize + 3;
    ledger::declare_recv(slot, 9, 0);
    op_recv::<F>(slot, 0);
    assert!(lg().recs[slot].res == R_DISC, "C07: the end of the stream was not reported again");
    kani::cover!(ledger::n_delivered(0) >= 2, "values were delivered before the end");
    if D == 1 {
        check_c07(0, &[1]);
    } else {
        check_c07(0, &[1, 5]);
    }
    ledger::check_c01(1, 1);
    ledger::check_c02();
    ledger::check_c03(c.n, 1, 1);
    let _ = &w; // ManuallyDrop: never dropped
}

// ==========================================================================================
// C10: add_stream
//   rx0 = parent handle; SIB: rx1 = clone of rx0 (second consumer on the parent stream)
//   actor 0: tx0 sends 1, 2
//   actor 1: rx0.add_stream() -> rx2 (stream 1), then rx0 receives
//   actor 2: (SIB) rx1 receives

pub struct Add<F, const SIB: bool, const L0: u8, const L1: u8>(PhantomData<F>);

impl<F: Fl, const SIB: bool, const L0: u8, const L1: u8> Prog for Add<F, SIB, L0, L1> {
    const NACT: usize = if SIB { 3 } else { 2 };
    const LEN: [u8; MAXACT] = [L0, L1, if SIB { 1 } else { 0 }, 0];
    const BASE: [usize; MAXACT] = [0, 4, 8, 0];
    #[inline(always)]
    fn step(a: usize, k: usize) {
        match (a, k) {
            (0, _) => op_send::<F>(k, 0, 1 + k as u8),
            (1, 0) => op_add_stream::<F>(4, 0, 2, 1),
            (1, _) => op_recv::<F>(4 + k, 0),
            (_, _) => op_recv::<F>(8 + k, 1),
        }
    }
}

/// forced-site loop over the producer's send into the full ring (DESIGN.md 4): at its k-th shared-memory
/// operation add_stream runs and then (MIN = 2) the parent stream's consumer takes a value, k = LO..=HI
pub fn add_stream_sites<const LO: u16, const HI: u16, const MIN: u8>(cap: u64, n: u8, pre_send: u8) {
    let mut k: u16 = LO;
    while k <= HI {
        add_stream::<BcB, false, 0, 1, 2>(&LifeCfg { exact: true, cap, n, pre_send, pre_recv: 0, force_site: k, per_site: MIN, budget: MIN, ..LQ });
        k += 1;
    }
}

pub fn add_stream<F: Fl, const SIB: bool, const OUTER: usize, const L0: u8, const L1: u8>(c: &LifeCfg) {
    ledger::reset();
    payload::reset();
    sched::configure(c.depth, c.budget, c.kinds, c.per_site);
    if c.force_site != 0 {
        sched::force(c.force_site, c.per_site, [1; 4]);
    }
    let mut w = World::<F>::new(c.cap);
    set_world::<F>(&mut *w);
    if SIB {
        w.rx[1] = Some(F::clone_rx(w.rx[0].as_ref().unwrap()));
    }
    for k in 0..2 {
        ledger::declare_send(k, 0, 1 + k as u8);
    }
    ledger::declare_other(4, 1);
    ledger::declare_recv(5, 1, 0);
    ledger::declare_recv(6, 1, 0);
    ledger::declare_recv(8, 2, 0);
    prefix::<F>(c);
    run_concurrent::<Add<F, SIB, L0, L1>, OUTER>();
    kani::cover!(sched::st().injected > 0, "an operation ran at a preemption point");

    // parent position (= number of values its stream had consumed) before / after the call
    let l = lg();
    let add = l.recs[4];
    let mut p_before: u8 = 0;
    let mut p_after: u8 = 0;
    let mut i = 0;
    while i < MAXREC {
        let r = l.recs[i];
        if r.kind == OP_RECV && r.stream == 0 && r.res == R_OK {
            if r.te < add.tb {
                p_before += 1;
            }
            if r.tb < add.te {
                p_after += 1;
            }
        }
        i += 1;
    }
    // quiescence: both streams limit the sender now
    let acc = ledger::n_accepted();
    let d0 = ledger::n_delivered(0);
    assert!(d0 <= acc, "C01: a stream delivered more values than were accepted");
    let got = probe_fill::<F>(PROBE_SLOT0, 0, 9, c.n as usize + 1);
    let total = acc + got;
    let last0 = drain::<F>(DRAIN_SLOT0, 0, c.n as usize + 1);
    let last1 = drain::<F>(DRAIN_SLOT0 + c.n as usize + 1, 2, c.n as usize + 2);
    assert!(last0 == R_EMPTY && last1 == R_EMPTY, "C06: a drained stream did not end with Empty");
    assert!(
        ledger::n_delivered(0) == total,
        "C10: adding a stream made the parent stream lose values"
    );
    // the new stream delivers a contiguous suffix of the (single-producer) send order
    let d1 = ledger::n_delivered(1);
    assert!(d1 <= total, "C01: a stream delivered more values than were accepted");
    let start = total - d1;
    assert!(
        start >= p_before && start <= p_after,
        "C10: the new stream did not start at a position its parent held during add_stream"
    );
    // rank of an accepted value = number of accepted sends that returned before it
    let mut x = 1;
    while x < MAXID {
        if accepted(x) {
            let me = l.recs[l.send_slot[x] as usize];
            let mut rank: u8 = 0;
            let mut y = 1;
            while y < MAXID {
                if y != x && accepted(y) && l.recs[l.send_slot[y] as usize].te < me.te {
                    rank += 1;
                }
                y += 1;
            }
            let cnt = ledger::delivered(1, x as u8);
            if rank >= start {
                assert!(cnt == 1, "C10: the new stream has a gap: a value sent after its start was not delivered");
            } else {
                assert!(cnt == 0, "C10: the new stream delivered a value from before its start");
            }
        }
        x += 1;
    }
    // backpressure: the probe may only have accepted what fits for the slowest of both streams
    let out0 = acc - d0;
    let out1 = acc - (if acc >= start { acc - start } else { 0 }) ;
    let _ = out1;
    assert!(got <= c.n - out0 || out0 > c.n, "C03: more than N values outstanding on the parent stream");
    ledger::check_c01(2, 1);
    ledger::check_c02();
    ledger::check_c03(c.n, 2, 1);
    let _ = &w; // ManuallyDrop: never dropped
}

// ==========================================================================================
// C11: stream removal
//   two streams: rx0 (stream 0), rx1 = add_stream (stream 1); LAST=false: rx2 = clone of rx0
//   actor 0: tx0 sends 1, 2 (retrying on a full queue)
//   actor 1: drops / unsubscribes rx0
//   actor 2: rx1 receives
//   The prefix fills the ring and lets stream 1 run ahead, so stream 0 is what blocks the sender.

pub struct Rem<F, const UNSUB: bool>(PhantomData<F>);

pub static mut UNSUB_RESULT: u8 = 0; // 0 = not called, 1 = false, 2 = true

impl<F: Fl, const UNSUB: bool> Prog for Rem<F, UNSUB> {
    const NACT: usize = 3;
    const LEN: [u8; MAXACT] = [2, 1, 1, 0];
    const BASE: [usize; MAXACT] = [0, 4, 8, 0];
    #[inline(always)]
    fn step(a: usize, k: usize) {
        match a {
            0 => op_send::<F>(k, 0, 1 + k as u8),
            1 => {
                if UNSUB {
                    let b = op_unsub_rx::<F>(4, 0);
                    unsafe { UNSUB_RESULT = if b { 2 } else { 1 } };
                } else {
                    op_drop_rx::<F>(4, 0)
                }
            }
            _ => op_recv::<F>(8, 1),
        }
    }
}

pub fn remove_stream<F: Fl, const UNSUB: bool, const LAST: bool, const OUTER: usize>(c: &LifeCfg) {
    ledger::reset();
    payload::reset();
    unsafe { UNSUB_RESULT = 0 };
    sched::configure(c.depth, c.budget, c.kinds, c.per_site);
    let mut w = World::<F>::new(c.cap);
    set_world::<F>(&mut *w);
    w.rx[1] = Some(F::add_stream(w.rx[0].as_ref().unwrap()));
    w.rx_stream[1] = 1;
    if !LAST {
        w.rx[2] = Some(F::clone_rx(w.rx[0].as_ref().unwrap()));
    }
    for k in 0..2 {
        ledger::declare_send(k, 0, 1 + k as u8);
    }
    ledger::declare_other(4, 1);
    ledger::declare_recv(8, 2, 1);
    // prefix: ps sends, then stream 1 consumes pr1 of them and stream 0 consumes pr0
    let ps: u8 = kani::any();
    kani::assume(ps <= c.pre_send);
    let mut i = 0;
    while i < c.pre_send {
        let slot = PRE_SEND_SLOT0 + i as usize;
        ledger::declare_send(slot, 8, 5 + i);
        if i < ps {
            op_send::<F>(slot, 0, 5 + i);
        }
        i += 1;
    }
    let pr1: u8 = kani::any();
    let pr0: u8 = kani::any();
    kani::assume(pr1 <= ps && pr0 <= ps && pr0 <= c.pre_recv && pr1 <= c.pre_recv);
    let mut i = 0;
    while i < c.pre_recv {
        let s1 = PRE_RECV_SLOT0 + i as usize;
        let s0 = PRE_RECV_SLOT0 + (c.pre_recv + i) as usize;
        ledger::declare_recv(s1, 8, 1);
        ledger::declare_recv(s0, 8, 0);
        if i < pr1 {
            op_recv::<F>(s1, 1);
        }
        if i < pr0 {
            op_recv::<F>(s0, 0);
        }
        i += 1;
    }
    kani::cover!(ps == c.n && pr1 > pr0, "the stream being removed is what keeps the queue full");

    run_concurrent::<Rem<F, UNSUB>, OUTER>();
    kani::cover!(sched::st().injected > 0, "an operation ran at a preemption point");

    if UNSUB {
        let r = unsafe { UNSUB_RESULT };
        assert!(
            r == (if LAST { 2 } else { 1 }),
            "C11: unsubscribe must report true exactly when the handle was the last one on its stream"
        );
    }
    let l = lg();
    let rm = l.recs[4];
    let acc = ledger::n_accepted();
    if LAST {
        // a send that began after the removal returned may only be refused if stream 1 is full
        let mut i = 0;
        while i < MAXREC {
            let s = l.recs[i];
            if s.kind == OP_SEND && s.res == R_FULL && s.tb > rm.te {
                let mut a: u8 = 0;
                let mut b: u8 = 0;
                let mut j = 0;
                while j < MAXREC {
                    let q = l.recs[j];
                    if q.kind == OP_SEND && q.res == R_OK && q.te < s.tb {
                        a += 1;
                    }
                    if q.kind == OP_RECV && q.stream == 1 && q.res == R_OK && q.te < s.tb {
                        b += 1;
                    }
                    j += 1;
                }
                assert!(
                    a >= b + c.n,
                    "C11: a send was refused after the stream that blocked it had been removed"
                );
            }
            i += 1;
        }
        // quiescence: only stream 1 counts
        let d1 = ledger::n_delivered(1);
        assert!(d1 <= acc, "C01: a stream delivered more values than were accepted");
        let out1 = acc - d1;
        assert!(out1 <= c.n, "C03: more than N values outstanding for the remaining stream");
        let got = probe_fill::<F>(PROBE_SLOT0, 0, 9, c.n as usize + 1);
        assert!(
            got == c.n - out1,
            "C11: after a stream was removed the queue does not accept exactly what the remaining stream leaves room for"
        );
        let last = drain::<F>(DRAIN_SLOT0, 1, c.n as usize + 1);
        assert!(last == R_EMPTY, "C06: a drained stream did not end with Empty");
        assert!(
            ledger::n_delivered(1) == acc + got,
            "C11: removing a stream made a remaining stream lose values"
        );
        ledger::check_c01(2, 2);
        ledger::check_c03(c.n, 2, 2);
    } else {
        // the stream still has a handle (rx2): both streams keep their values and backpressure
        finish::<F>(&Finish {
            n: c.n,
            nstreams: 2,
            full: 3,
            drain_rx: [2, 1, 0],
            probe_tx: 0,
            probe_id0: 9,
        });
    }
    ledger::check_c02();
    let _ = &w; // ManuallyDrop: never dropped
}

// ==========================================================================================
// C11 (second part): two changes of the stream list racing with each other
//   KIND 1: streams s0 (rx0), s1 (rx1), s2 (rx2).  actor 1 drops rx0, actor 2 drops rx1;
//           afterwards only s2 may limit the sender.
//   KIND 2: streams s0 (rx0), s1 (rx1).  actor 1 drops rx0, actor 2 does rx1.add_stream() -> rx2 (s2);
//           afterwards s1 and s2 limit the sender and both get every value.
//   KIND 3: one stream with two handles rx0, rx2.  actor 1 does rx0.add_stream() -> rx1 (s1),
//           actor 2 does rx2.add_stream() -> rx3 (s2): two additions racing; afterwards all three
//           streams limit the sender and get every value.
//   KIND 4: streams s0 (two handles: rx0 and its clone rx2) and s1 (rx1).  actor 1 drops rx0,
//           actor 2 drops rx2: the last two handles of a stream leave at the same time; exactly
//           one of them must remove the stream, afterwards only s1 limits the sender.
//   actor 0: tx0 sends 1

pub struct Rem2<F, const KIND: u8>(PhantomData<F>);

impl<F: Fl, const KIND: u8> Prog for Rem2<F, KIND> {
    const NACT: usize = 3;
    const LEN: [u8; MAXACT] = [1, 1, 1, 0];
    const BASE: [usize; MAXACT] = [0, 4, 8, 0];
    #[inline(always)]
    fn step(a: usize, _k: usize) {
        match (KIND, a) {
            (_, 0) => op_send::<F>(0, 0, 1),
            (4, 1) => op_drop_rx::<F>(4, 0),
            (4, _) => op_drop_rx::<F>(8, 2),
            (3, 1) => op_add_stream::<F>(4, 0, 1, 1),
            (3, _) => op_add_stream::<F>(8, 2, 3, 2),
            (_, 1) => op_drop_rx::<F>(4, 0),
            (1, _) => op_drop_rx::<F>(8, 1),
            (_, _) => op_add_stream::<F>(8, 1, 2, 2),
        }
    }
}

/// forced-site loop (DESIGN.md 4): the second list change runs ALWAYS at the k-th shared-memory operation of the
/// first one (actor 1, the outer one), k = LO..=HI, optionally followed there by the producer's send
pub fn remove_race_sites<F: Fl, const KIND: u8, const LO: u16, const HI: u16>(c: &LifeCfg) {
    let mut k: u16 = LO;
    while k <= HI {
        remove_race::<F, KIND, 1>(&LifeCfg { force_site: k, ..*c });
        k += 1;
    }
}

pub fn remove_race<F: Fl, const KIND: u8, const OUTER: usize>(c: &LifeCfg) {
    ledger::reset();
    payload::reset();
    sched::configure(c.depth, c.budget, c.kinds, c.per_site);
    if c.force_site != 0 {
        sched::force(c.force_site, 1, [2, 1, 1, 1]);
    }
    let mut w = World::<F>::new(c.cap);
    set_world::<F>(&mut *w);
    if KIND == 3 {
        w.rx[2] = Some(F::clone_rx(w.rx[0].as_ref().unwrap()));
    } else {
        w.rx[1] = Some(F::add_stream(w.rx[0].as_ref().unwrap()));
        w.rx_stream[1] = 1;
    }
    if KIND == 4 {
        w.rx[2] = Some(F::clone_rx(w.rx[0].as_ref().unwrap()));
    }
    if KIND == 1 {
        w.rx[2] = Some(F::add_stream(w.rx[0].as_ref().unwrap()));
        w.rx_stream[2] = 2;
    }
    ledger::declare_send(0, 0, 1);
    ledger::declare_other(4, 1);
    ledger::declare_other(8, 2);
    // prefix: ps sends; stream 0 consumes pr0 of them (the other streams stay at the start)
    let ps: u8 = if c.exact { c.pre_send } else { kani::any() };
    kani::assume(ps <= c.pre_send);
    let mut i = 0;
    while i < c.pre_send {
        let slot = PRE_SEND_SLOT0 + i as usize;
        ledger::declare_send(slot, 8, 5 + i);
        if i < ps {
            op_send::<F>(slot, 0, 5 + i);
        }
        i += 1;
    }
    let pr0: u8 = if c.exact { c.pre_recv } else { kani::any() };
    kani::assume(pr0 <= ps && pr0 <= c.pre_recv && (KIND != 3 || pr0 == 0));
    let mut i = 0;
    while i < c.pre_recv {
        let s0 = PRE_RECV_SLOT0 + i as usize;
        ledger::declare_recv(s0, 8, 0);
        if i < pr0 {
            op_recv::<F>(s0, 0);
        }
        i += 1;
    }
    run_concurrent::<Rem2<F, KIND>, OUTER>();
    kani::cover!(sched::st().injected > 0, "an operation ran at a preemption point");
    kani::cover!(
        c.force_site == 0 || sched::st().site_no < c.force_site,
        "not in forced-site mode, or the forced site lies past the end of the outer operation"
    );
    // the stream list itself: a stream that a lost update dropped from (or left in) the list cannot be seen
    // by the probe below as long as all streams stand at the same position
    {
        let expect: usize = match KIND {
            1 | 4 => 1,
            2 => 2,
            _ => 3,
        };
        let v = F::queue_view(unsafe { (*wp::<F>()).tx[0].as_ref().unwrap() });
        if KIND == 3 {
            assert!(
                v.streams == expect,
                "C10: after two concurrent add_stream calls the stream list does not hold every subscribed stream (one of the new streams does not limit the sender)"
            );
        } else {
            assert!(
                v.streams == expect,
                "C11: after two concurrent changes of the stream list the list does not hold exactly the subscribed streams (a stream no longer limits the sender, or a removed one still does)"
            );
        }
    }
    if KIND == 4 {
        finish::<F>(&Finish {
            n: c.n,
            nstreams: 2,
            full: 0b10,
            drain_rx: [0, 1, 0],
            probe_tx: 0,
            probe_id0: 9,
        });
    } else if KIND == 3 {
        finish::<F>(&Finish {
            n: c.n,
            nstreams: 3,
            full: 0b111,
            drain_rx: [0, 1, 3],
            probe_tx: 0,
            probe_id0: 9,
        });
    } else if KIND == 1 {
        finish::<F>(&Finish {
            n: c.n,
            nstreams: 3,
            full: 0b100,
            drain_rx: [0, 0, 2],
            probe_tx: 0,
            probe_id0: 9,
        });
    } else {
        finish::<F>(&Finish {
            n: c.n,
            nstreams: 3,
            full: 0b110,
            drain_rx: [0, 1, 2],
            probe_tx: 0,
            probe_id0: 9,
        });
    }
    let _ = &w; // ManuallyDrop: never dropped
}

// ==========================================================================================
// C12: handle churn during traffic
//   CH=1 senders 1 -> 2 -> 1:
//     actor 0: tx1 = tx0.clone(), send 2       (tx0 sent in single-writer state during the prefix)
//     actor 1: send 3 (tx1), drop tx1          (can only run once the clone exists)
//     actor 2: rx0 receives
//   CH=2 consumers 1 -> 2 -> 1:
//     actor 0: tx0 sends 1
//     actor 1: rx1 = rx0.clone(), rx0 receives
//     actor 2: rx1 receives, drop rx1          (can only run once the clone exists)

pub struct Churn<F, const CH: u8>(PhantomData<F>);

impl<F: Fl, const CH: u8> Prog for Churn<F, CH> {
    const NACT: usize = 3;
    const LEN: [u8; MAXACT] = if CH == 1 { [2, 2, 1, 0] } else { [1, 2, 2, 0] };
    const BASE: [usize; MAXACT] = [0, 4, 8, 0];
    #[inline(always)]
    fn step(a: usize, k: usize) {
        match (CH, a, k) {
            // senders 1 -> 2 -> 1 (tx0 has sent in single-writer state during the prefix)
            (1, 0, 0) => op_clone_tx::<F>(0, 0, 1),
            (1, 0, _) => op_send::<F>(1, 0, 2),
            (1, 1, 0) => {
                kani::assume(unsafe { (*wp::<F>()).tx[1].is_some() });
                op_send::<F>(4, 1, 3)
            }
            (1, 1, _) => {
                kani::assume(unsafe { (*wp::<F>()).tx[1].is_some() });
                op_drop_tx::<F>(5, 1)
            }
            (1, _, _) => op_recv::<F>(8, 0),
            // consumers 1 -> 2 -> 1
            (_, 0, _) => op_send::<F>(0, 0, 1),
            (_, 1, 0) => op_clone_rx::<F>(4, 0, 1),
            (_, 1, _) => op_recv::<F>(5, 0),
            (_, _, 0) => {
                kani::assume(unsafe { (*wp::<F>()).rx[1].is_some() });
                op_recv::<F>(8, 1)
            }
            (_, _, _) => {
                kani::assume(unsafe { (*wp::<F>()).rx[1].is_some() });
                op_drop_rx::<F>(9, 1)
            }
        }
    }
}

pub fn churn<F: Fl, const CH: u8, const OUTER: usize>(c: &LifeCfg) {
    ledger::reset();
    payload::reset();
    sched::configure(c.depth, c.budget, c.kinds, c.per_site);
    let mut w = World::<F>::new(c.cap);
    set_world::<F>(&mut *w);
    if CH == 1 {
        ledger::declare_other(0, 0);
        ledger::declare_send(1, 0, 2);
        ledger::declare_send(4, 1, 3);
        ledger::declare_other(5, 1);
        ledger::declare_recv(8, 2, 0);
    } else {
        ledger::declare_send(0, 0, 1);
        ledger::declare_other(4, 1);
        ledger::declare_recv(5, 1, 0);
        ledger::declare_recv(8, 2, 0);
        ledger::declare_other(9, 2);
    }
    prefix::<F>(c);
    run_concurrent::<Churn<F, CH>, OUTER>();
    kani::cover!(sched::st().injected > 0, "an operation ran at a preemption point");
    finish::<F>(&Finish {
        n: c.n,
        nstreams: 1,
        full: 1,
        drain_rx: [0, 0, 0],
        probe_tx: 0,
        probe_id0: 9,
    });
    let _ = &w; // ManuallyDrop: never dropped
}

// C12, two-actor form: the churning actor is the preempted one (structural operations are never
// solver-optional), the traffic of the long-lived handles is what runs at its preemption points
//   CH=1: actor 0: tx1 = tx0.clone(), tx1 sends 3, drop tx1     actor 1: tx0 sends 2, rx0 receives
//   CH=2: actor 0: rx1 = rx0.clone(), rx1 receives, drop rx1    actor 1: tx0 sends 1, rx0 receives
pub struct Churn2<F, const CH: u8, const PART: u8>(PhantomData<F>);

// PART 0: clone, use, drop.  PART 1: clone, use (the clone stays).  PART 2: use, drop (cloned during set-up)
impl<F: Fl, const CH: u8, const PART: u8> Prog for Churn2<F, CH, PART> {
    const NACT: usize = 2;
    const LEN: [u8; MAXACT] = [if PART == 0 { 3 } else { 2 }, 2, 0, 0];
    const BASE: [usize; MAXACT] = [0, 4, 0, 0];
    #[inline(always)]
    fn step(a: usize, k: usize) {
        let kk = if PART == 2 { k + 1 } else { k };
        match (CH, a, kk) {
            (1, 0, 0) => op_clone_tx::<F>(0, 0, 1),
            (1, 0, 1) => op_send::<F>(1, 1, 3),
            (1, 0, _) => op_drop_tx::<F>(2, 1),
            (_, 0, 0) => op_clone_rx::<F>(0, 0, 1),
            (_, 0, 1) => op_recv::<F>(1, 1),
            (_, 0, _) => op_drop_rx::<F>(2, 1),
            _ => match (CH, k) {
                (1, 0) => op_send::<F>(4, 0, 2),
                (1, _) => op_recv::<F>(5, 0),
                (_, 0) => op_send::<F>(4, 0, 1),
                (_, _) => op_recv::<F>(5, 0),
            },
        }
    }
}

pub fn churn2<F: Fl, const CH: u8, const PART: u8>(c: &LifeCfg) {
    ledger::reset();
    payload::reset();
    sched::configure(c.depth, c.budget, c.kinds, c.per_site);
    let mut w = World::<F>::new(c.cap);
    set_world::<F>(&mut *w);
    if CH == 1 {
        ledger::declare_other(0, 0);
        ledger::declare_send(1, 0, 3);
        ledger::declare_other(2, 0);
        ledger::declare_send(4, 1, 2);
        ledger::declare_recv(5, 1, 0);
    } else {
        ledger::declare_other(0, 0);
        ledger::declare_recv(1, 0, 0);
        ledger::declare_other(2, 0);
        ledger::declare_send(4, 1, 1);
        ledger::declare_recv(5, 1, 0);
    }
    prefix::<F>(c);
    if PART == 2 {
        if CH == 1 {
            op_clone_tx::<F>(0, 0, 1);
        } else {
            op_clone_rx::<F>(0, 0, 1);
        }
    }
    run_concurrent::<Churn2<F, CH, PART>, 0>();
    kani::cover!(sched::st().injected > 0, "an operation ran at a preemption point");
    finish::<F>(&Finish {
        n: c.n,
        nstreams: 1,
        full: 1,
        drain_rx: [0, 0, 0],
        probe_tx: 0,
        probe_id0: 9,
    });
    let _ = &w; // ManuallyDrop: never dropped
}

// ==========================================================================================
// C13: no receivers left (sequential)
//   KIND 1: single stream, one handle      KIND 2: one stream, two handles
//   KIND 3: two streams, one handle each
//   values may still be queued (symbolic prefix); drop order symbolic

pub struct Idle;
impl sched::Scenario for Idle {
    fn inject(_c: u8) {
        kani::assume(false);
    }
}

pub fn no_receivers<F: Fl, const KIND: u8, const TWO_SENDERS: bool, const RX0_FIRST: bool>(cap: u64) {
    ledger::reset();
    payload::reset();
    sched::configure(0, 0, 0, 0);
    let mut w = World::<F>::new(cap);
    set_world::<F>(&mut *w);
    match KIND {
        1 => {}
        2 => {
            w.rx[1] = Some(F::clone_rx(w.rx[0].as_ref().unwrap()));
        }
        _ => {
            w.rx[1] = Some(F::add_stream(w.rx[0].as_ref().unwrap()));
            w.rx_stream[1] = 1;
        }
    }
    // queued values or not
    ledger::declare_send(0, 0, 1);
    let queued: bool = kani::any();
    if queued {
        op_send::<F>(0, 0, 1);
    }
    // memory-reclamation epoch announcement pending or not (state injection, see Fl::raise_epoch_signal)
    let epoch_pending: bool = kani::any();
    if epoch_pending {
        crate::world::inject_epoch_pending::<F>(w.tx[0].as_ref().unwrap());
    }
    // second sender handle or not, and the order in which the receivers go, are harness
    // parameters: structural choices made by the solver make allocation sizes and the Arc count
    // symbolic (DESIGN.md section 2)
    let two_senders = TWO_SENDERS;
    if two_senders {
        w.tx[1] = Some(F::clone_tx(w.tx[0].as_ref().unwrap()));
    }
    // drop the receivers in either order
    let first = RX0_FIRST;
    if KIND == 1 {
        drop(w.rx[0].take());
    } else if first {
        drop(w.rx[0].take());
        // with a receiver left, sends are not disconnected
        ledger::declare_send(1, 0, 2);
        op_send::<F>(1, 0, 2);
        assert!(lg().recs[1].res != R_DISC, "C13: a send was reported Disconnected while a receiver was still alive");
        drop(w.rx[1].take());
    } else {
        drop(w.rx[1].take());
        drop(w.rx[0].take());
    }
    kani::cover!(queued, "receivers gone with a value still queued");
    kani::cover!(epoch_pending, "receivers gone while an epoch announcement is pending");
    // every sender now gets its value back as Disconnected
    ledger::declare_send(2, 0, 3);
    op_send::<F>(2, 0, 3);
    assert!(
        lg().recs[2].res == R_DISC,
        "C13: with every receiver gone try_send must hand the value back as Disconnected"
    );
    if two_senders {
        ledger::declare_send(3, 1, 4);
        op_send::<F>(3, 1, 4);
        assert!(
            lg().recs[3].res == R_DISC,
            "C13: with every receiver gone try_send must hand the value back as Disconnected"
        );
    }
    let _ = &w; // ManuallyDrop: never dropped
}

// ------------------------------------------------------------------------------------------
// instances

pub type MpB = MpmcPlain<u8, Busy>;
pub type BcB = BcastPlain<u8, Busy>;

macro_rules! life {
    ($name:ident, $hk:ident, $sc:ty, $body:expr) => {
        crate::mq_harness!($name, $hk, $sc, $body);
    };
}

// C07
life!(c07_mp_one_o1, hk_c07_mp_one_o1, Runner<Disc<MpB, 1, false>, 1>, disconnect::<MpB, 1, false, 1>(&LQ));
life!(c07_bc_one_o1, hk_c07_bc_one_o1, Runner<Disc<BcB, 1, false>, 1>, disconnect::<BcB, 1, false, 1>(&LQ));
life!(c07_mp_one_o0, hk_c07_mp_one_o0, Runner<Disc<MpB, 1, false>, 0>, disconnect::<MpB, 1, false, 0>(&LQ));
life!(c07_mp_two_o2, hk_c07_mp_two_o2, Runner<Disc<MpB, 2, false>, 2>, disconnect::<MpB, 2, false, 2>(&LifeCfg { budget: 3, ..LQ }));
life!(c07_bc_two_o0, hk_c07_bc_two_o0, Runner<Disc<BcB, 2, false>, 0>, disconnect::<BcB, 2, false, 0>(&LQ));
life!(c07_bc_view_o1, hk_c07_bc_view_o1, Runner<Disc<BcB, 1, true>, 1>, disconnect::<BcB, 1, true, 1>(&LQ));
life!(c07_mp_view_o1, hk_c07_mp_view_o1, Runner<Disc<MpB, 1, true>, 1>, disconnect::<MpB, 1, true, 1>(&LQ));
// C10
life!(c10_bc_sole_o1, hk_c10_bc_sole_o1, Runner<Add<BcB, false, 2, 2>, 1>, add_stream::<BcB, false, 1, 2, 2>(&LQ));
life!(c10_bc_sole_o0, hk_c10_bc_sole_o0, Runner<Add<BcB, false, 1, 2>, 0>, add_stream::<BcB, false, 0, 1, 2>(&LifeCfg { exact: true, pre_send: 2, pre_recv: 0, ..LQ }));
life!(c03_bc_addstream_o0_n1, hk_c03_bc_addstream_o0_n1, Runner<Add<BcB, false, 1, 2>, 0>, add_stream::<BcB, false, 0, 1, 2>(&LifeCfg { exact: true, cap: 1, n: 1, pre_send: 1, pre_recv: 0, ..LQ }));
life!(c10_bc_sib_o1, hk_c10_bc_sib_o1, Runner<Add<BcB, true, 2, 1>, 1>, add_stream::<BcB, true, 1, 2, 1>(&LifeCfg { budget: 3, per_site: 3, ..LQ }));
// add_stream (always) and then, if the solver says so, the parent's receive run at the k-th shared-memory
// operation of the producer's send into the full ring, for every k (the last k lie past the end of the send)
life!(c03_bc_addstream_sitesq_a, hk_c03_bc_addstream_sitesq_a, Runner<Add<BcB, false, 1, 2>, 0>, add_stream_sites::<1, 8, 2>(1, 1, 1));
life!(c03_bc_addstream_sitesq_b, hk_c03_bc_addstream_sitesq_b, Runner<Add<BcB, false, 1, 2>, 0>, add_stream_sites::<9, 16, 2>(1, 1, 1));
life!(c03_bc_addstream_sitesq_c, hk_c03_bc_addstream_sitesq_c, Runner<Add<BcB, false, 1, 2>, 0>, add_stream_sites::<17, 24, 2>(1, 1, 1));
life!(c10_bc_addstream_sitesq_a, hk_c10_bc_addstream_sitesq_a, Runner<Add<BcB, false, 1, 2>, 0>, add_stream_sites::<1, 12, 1>(2, 2, 2));
life!(c10_bc_addstream_sitesq_b, hk_c10_bc_addstream_sitesq_b, Runner<Add<BcB, false, 1, 2>, 0>, add_stream_sites::<13, 24, 1>(2, 2, 2));
// C11
life!(c11_bc_drop_last_o1, hk_c11_bc_drop_last_o1, Runner<Rem<BcB, false>, 1>, remove_stream::<BcB, false, true, 1>(&LQ));
life!(c11_bc_drop_last_o0, hk_c11_bc_drop_last_o0, Runner<Rem<BcB, false>, 0>, remove_stream::<BcB, false, true, 0>(&LifeCfg { per_site: 1, ..LQ }));
life!(c11_bc_unsub_last_o1, hk_c11_bc_unsub_last_o1, Runner<Rem<BcB, true>, 1>, remove_stream::<BcB, true, true, 1>(&LQ));
life!(c11_bc_unsub_nonlast_o1, hk_c11_bc_unsub_nonlast_o1, Runner<Rem<BcB, true>, 1>, remove_stream::<BcB, true, false, 1>(&LQ));
life!(c11_bc_droprace_o1, hk_c11_bc_droprace_o1, Runner<Rem2<BcB, 1>, 1>, remove_race::<BcB, 1, 1>(&LR));
life!(c11_bc_addrace_o1, hk_c11_bc_addrace_o1, Runner<Rem2<BcB, 2>, 1>, remove_race::<BcB, 2, 1>(&LR));
life!(c11_bc_addrace_o2, hk_c11_bc_addrace_o2, Runner<Rem2<BcB, 2>, 2>, remove_race::<BcB, 2, 2>(&LR));
life!(c11_bc_bothhandles_o1, hk_c11_bc_bothhandles_o1, Runner<Rem2<BcB, 4>, 1>, remove_race::<BcB, 4, 1>(&LR));
life!(c10_bc_addadd_o1, hk_c10_bc_addadd_o1, Runner<Rem2<BcB, 3>, 1>, remove_race::<BcB, 3, 1>(&LifeCfg { pre_recv: 0, ..LR }));
life!(c11_bc_droprace_sites, hk_c11_bc_droprace_sites, Runner<Rem2<BcB, 1>, 1>, remove_race_sites::<BcB, 1, 1, 6>(&LifeCfg { per_site: 2, pre_recv: 1, ..LR }));
life!(c11_bc_droprace_sitesq, hk_c11_bc_droprace_sitesq, Runner<Rem2<BcB, 1>, 1>, remove_race_sites::<BcB, 1, 1, 8>(&LifeCfg { per_site: 1, budget: 1, pre_recv: 1, ..LR }));
life!(c11_bc_addrace_sites, hk_c11_bc_addrace_sites, Runner<Rem2<BcB, 2>, 1>, remove_race_sites::<BcB, 2, 1, 6>(&LifeCfg { per_site: 2, pre_recv: 1, ..LR }));
life!(c11_bc_addrace_sitesq, hk_c11_bc_addrace_sitesq, Runner<Rem2<BcB, 2>, 1>, remove_race_sites::<BcB, 2, 1, 8>(&LifeCfg { per_site: 1, budget: 1, pre_recv: 1, ..LR }));
life!(c10_bc_addadd_sites, hk_c10_bc_addadd_sites, Runner<Rem2<BcB, 3>, 1>, remove_race_sites::<BcB, 3, 1, 6>(&LifeCfg { per_site: 2, pre_recv: 0, ..LR }));
life!(c10_bc_addadd_sitesq, hk_c10_bc_addadd_sitesq, Runner<Rem2<BcB, 3>, 1>, remove_race_sites::<BcB, 3, 1, 8>(&LifeCfg { per_site: 1, budget: 1, pre_recv: 0, ..LR }));
life!(c11_bc_bothhandles_sites, hk_c11_bc_bothhandles_sites, Runner<Rem2<BcB, 4>, 1>, remove_race_sites::<BcB, 4, 1, 6>(&LifeCfg { per_site: 2, pre_recv: 1, ..LR }));
life!(c11_bc_bothhandles_sitesq, hk_c11_bc_bothhandles_sitesq, Runner<Rem2<BcB, 4>, 1>, remove_race_sites::<BcB, 4, 1, 8>(&LifeCfg { per_site: 1, budget: 1, pre_recv: 1, ..LR }));
// C12
life!(c12_mp_senders_o0, hk_c12_mp_senders_o0, Runner<Churn<MpB, 1>, 0>, churn::<MpB, 1, 0>(&LifeCfg { pre_send: 1, pre_recv: 1, per_site: 1, ..LQ }));
life!(c12_bc_senders_o0, hk_c12_bc_senders_o0, Runner<Churn<BcB, 1>, 0>, churn::<BcB, 1, 0>(&LifeCfg { pre_send: 1, pre_recv: 1, per_site: 1, ..LQ }));
life!(c12_mp_consumers_o1, hk_c12_mp_consumers_o1, Runner<Churn<MpB, 2>, 1>, churn::<MpB, 2, 1>(&LifeCfg { pre_send: 2, pre_recv: 1, per_site: 1, ..LQ }));
life!(c12_bc_consumers_o1, hk_c12_bc_consumers_o1, Runner<Churn<BcB, 2>, 1>, churn::<BcB, 2, 1>(&LifeCfg { pre_send: 2, pre_recv: 1, per_site: 1, ..LQ }));
life!(c12_mp_senders2a, hk_c12_mp_senders2a, Runner<Churn2<MpB, 1, 1>, 0>, churn2::<MpB, 1, 1>(&LifeCfg { pre_send: 1, pre_recv: 1, per_site: 1, ..LQ }));
life!(c12_mp_senders2b, hk_c12_mp_senders2b, Runner<Churn2<MpB, 1, 2>, 0>, churn2::<MpB, 1, 2>(&LifeCfg { pre_send: 1, pre_recv: 1, per_site: 1, ..LQ }));
life!(c12_mp_consumers2a, hk_c12_mp_consumers2a, Runner<Churn2<MpB, 2, 1>, 0>, churn2::<MpB, 2, 1>(&LifeCfg { pre_send: 2, pre_recv: 1, per_site: 1, ..LQ }));
life!(c12_mp_consumers2b, hk_c12_mp_consumers2b, Runner<Churn2<MpB, 2, 2>, 0>, churn2::<MpB, 2, 2>(&LifeCfg { pre_send: 2, pre_recv: 1, per_site: 1, ..LQ }));
life!(c12_bc_senders2a, hk_c12_bc_senders2a, Runner<Churn2<BcB, 1, 1>, 0>, churn2::<BcB, 1, 1>(&LifeCfg { pre_send: 1, pre_recv: 1, per_site: 1, ..LQ }));
life!(c12_bc_senders2b, hk_c12_bc_senders2b, Runner<Churn2<BcB, 1, 2>, 0>, churn2::<BcB, 1, 2>(&LifeCfg { pre_send: 1, pre_recv: 1, per_site: 1, ..LQ }));
life!(c12_bc_consumers2a, hk_c12_bc_consumers2a, Runner<Churn2<BcB, 2, 1>, 0>, churn2::<BcB, 2, 1>(&LifeCfg { pre_send: 2, pre_recv: 1, per_site: 1, ..LQ }));
life!(c12_bc_consumers2b, hk_c12_bc_consumers2b, Runner<Churn2<BcB, 2, 2>, 0>, churn2::<BcB, 2, 2>(&LifeCfg { pre_send: 2, pre_recv: 1, per_site: 1, ..LQ }));
// C13
life!(c13_mp_one, hk_c13_mp_one, Idle, no_receivers::<MpB, 1, false, true>(2));
life!(c13_mp_two_handles, hk_c13_mp_two_handles, Idle, no_receivers::<MpB, 2, true, true>(2));
life!(c13_bc_two_streams, hk_c13_bc_two_streams, Idle, no_receivers::<BcB, 3, true, false>(2));
life!(c13_bc_two_handles, hk_c13_bc_two_handles, Idle, no_receivers::<BcB, 2, false, false>(1));
life!(c13_bc_two_streams_rx0first, hk_c13_bc_two_streams_rx0first, Idle, no_receivers::<BcB, 3, false, true>(1));

