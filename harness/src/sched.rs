//! Symbolic scheduler: turns "where is a thread preempted and what runs there" into solver
//! variables.  See DESIGN.md section 4.
//!
//! One thread of control.  The *outer* actor's operations run on the harness stack; every shim
//! operation of the real queue code calls `rt::point` first, which (under Kani via `#[kani::stub]`,
//! natively via `rt::install`) lands in `point_impl::<Sc>`.  There a fresh `kani::any()` decides
//! whether one operation of another actor runs to completion at this very place.

#[cfg(kani)]
extern crate kani;

pub struct Sched {
    /// injection is only considered while enabled (off during set-up, probe and drain)
    pub enabled: bool,
    pub depth: u8,
    pub max_depth: u8,
    /// how many more operations may be started at preemption points
    pub budget: u8,
    /// bit k set = injection enabled in front of shim operations of kind k (rt::K_*)
    pub kinds: u16,
    /// max. operations started at one and the same site
    pub per_site: u8,
    /// number of operations started at preemption points so far
    pub injected: u8,
    /// shim operations executed by the innermost running operation (C18)
    pub steps: u32,
    pub max_steps_seen: u32,
    /// set when a shim lock was found held by a suspended operation
    pub blocked_seen: bool,
    /// condvar waits that ran out of other actors (stuck detector input)
    pub cv_waits: u8,
    /// the shim `sleep` was reached (FutWait::fut_wait sleeping inside poll)
    pub slept: bool,
    /// a shim condvar wait was entered during the concurrent phase
    pub cv_entered: bool,
    /// forced-site mode (0 = off): the operations of the other actor run at the k-th eligible site
    /// of the outer actor and nowhere else; the first `force_min` of them always, the rest (up to
    /// per_site) if the solver says so.  The harness loops over k, so the *site* is a loop variable
    /// (a conjunction over all sites) instead of a solver choice: an operation that allocates or
    /// changes the handle structure then runs at a concrete place and heap-object identities stay
    /// concrete (DESIGN.md 4.2)
    pub force_site: u16,
    pub force_min: u8,
    /// which actor (scenario choice, >= 1) runs as the n-th operation at the forced site
    pub force_seq: [u8; 4],
    pub site_no: u16,
    /// shim operations the outer operation has executed since the last injection
    pub idle_steps: u32,
    /// (waiting scenarios) the outer operation may take this many steps without anybody else
    /// running; beyond that it is spinning: with nobody left to run the stuck detector decides,
    /// otherwise the schedule is unfair (the others never get the CPU) and is pruned.  0 = off
    pub idle_limit: u32,
}

pub static mut SCHED: Sched = Sched {
    enabled: false,
    depth: 0,
    max_depth: 1,
    budget: 0,
    kinds: 0,
    per_site: 1,
    injected: 0,
    steps: 0,
    max_steps_seen: 0,
    blocked_seen: false,
    cv_waits: 0,
    slept: false,
    cv_entered: false,
    force_site: 0,
    force_min: 0,
    force_seq: [1; 4],
    site_no: 0,
    idle_steps: 0,
    idle_limit: 0,
};

#[inline(always)]
pub fn st() -> &'static mut Sched {
    unsafe { &mut *std::ptr::addr_of_mut!(SCHED) }
}

pub const ALL_KINDS: u16 = 0x0fff;
/// preemption-point kind of `alloc::allocate` / `alloc::deallocate` (continues rt::K_* and K_PAYLOAD)
pub const K_ALLOC: u8 = 13;
/// site windows (DESIGN.md 4.1): a partition of all preemption sites by the kind of the shim
/// operation they precede
pub const WIN_LOADS: u16 = 1 << 0;
pub const WIN_WRITES: u16 = (1 << 1) | (1 << 2);
pub const WIN_OTHER: u16 = 0x1fff & !(WIN_LOADS | WIN_WRITES | (1 << 5));
/// loads/stores/RMWs on usize cells and pointer cells, locks, notify, yield - everything except
/// the condvar wait itself (which has its own hook)
pub const MEM_KINDS: u16 = 0x0fdf;

pub fn configure(max_depth: u8, budget: u8, kinds: u16, per_site: u8) {
    // smoke mode (--cfg mq_smoke, development only): no injection at all, i.e. every scenario
    // degenerates to one sequential execution; used to debug harness logic cheaply
    #[cfg(mq_smoke)]
    let budget = 0 * budget;
    let s = st();
    s.enabled = false;
    s.depth = 0;
    s.max_depth = max_depth;
    s.budget = budget;
    s.kinds = kinds;
    s.per_site = per_site;
    s.injected = 0;
    s.steps = 0;
    s.max_steps_seen = 0;
    s.blocked_seen = false;
    s.cv_waits = 0;
    s.slept = false;
    s.cv_entered = false;
    s.idle_steps = 0;
    s.idle_limit = 0;
    s.force_site = 0;
    s.force_min = 0;
    s.site_no = 0;
}

/// forced-site mode, see `Sched::force_site`
pub fn force(site: u16, min_ops: u8, seq: [u8; 4]) {
    let s = st();
    s.force_site = site;
    s.force_min = min_ops;
    s.force_seq = seq;
    s.site_no = 0;
}

pub fn enable() {
    st().enabled = true;
}
pub fn disable() {
    st().enabled = false;
}

/// What a scenario provides: run one operation of another actor, chosen by `choice` (>= 1).
/// Must `kani::assume(false)` if `choice` does not name an actor with an operation left.
pub trait Scenario {
    fn inject(choice: u8);
    /// every actor other than the one on the harness stack has finished its program
    fn others_done() -> bool {
        false
    }
    /// total number of operations the other actors have (bounds the rounds inside a condvar wait)
    fn others_ops() -> u8 {
        3
    }
    /// The operation on the harness stack cannot make progress and nobody is left to help it:
    /// decide whether that is a lost wake-up (assert) or a legitimately blocked thread
    /// (`kani::assume(false)`).  Must not return normally.
    fn stuck() {
        kani::assume(false);
    }
}

/// Shim `Condvar::wait` (lock already released): the other actors run here, one complete
/// operation at a time, chosen by the solver, until somebody calls `notify_all` on this condvar.
/// A waiter that nobody notifies although no one is left to run is stuck for good.
#[inline(never)]
pub fn cv_wait_impl<Sc: Scenario>(addr: usize) {
    let s = st();
    if !s.enabled {
        // sequential phase: a wait here can never be woken
        Sc::stuck();
        return;
    }
    s.cv_entered = true;
    let n0 = unsafe { *(addr as *const usize) };
    let mut rounds = 0;
    let max_rounds = Sc::others_ops();
    while rounds < max_rounds {
        if unsafe { *(addr as *const usize) } != n0 {
            return;
        }
        if Sc::others_done() {
            s.cv_waits += 1;
            Sc::stuck();
            return;
        }
        let c: u8 = kani::any();
        kani::assume(c != 0);
        s.depth += 1;
        s.injected += 1;
        s.idle_steps = 0;
        Sc::inject(c);
        let s = st();
        s.depth -= 1;
        rounds += 1;
    }
    if unsafe { *(addr as *const usize) } != n0 {
        return;
    }
    // everybody else has run all of its operations and nobody notified this waiter
    kani::assume(Sc::others_done());
    s.cv_waits += 1;
    Sc::stuck();
}

#[inline(never)]
pub fn point_impl<Sc: Scenario>(kind: u8, _addr: usize) {
    let s = st();
    if !s.enabled {
        return;
    }
    s.steps += 1;
    if kind == 8 {
        s.slept = true;
    }
    if s.depth >= s.max_depth {
        return;
    }
    if s.idle_limit != 0 && s.depth == 0 {
        s.idle_steps += 1;
        if s.idle_steps > s.idle_limit {
            if Sc::others_done() {
                Sc::stuck();
            }
            kani::assume(false);
        }
    }
    if (s.kinds >> kind) & 1 == 0 {
        return;
    }
    let forced = s.force_site != 0;
    if forced {
        if s.depth != 0 {
            return;
        }
        s.site_no += 1;
        if s.site_no != s.force_site {
            return;
        }
    }
    let mut n = 0;
    while n < s.per_site {
        if s.budget == 0 {
            return;
        }
        let c: u8 = if forced {
            if n < s.force_min || kani::any() {
                s.force_seq[(n & 3) as usize]
            } else {
                0
            }
        } else {
            kani::any()
        };
        if c == 0 {
            return;
        }
        s.budget -= 1;
        s.injected += 1;
        s.idle_steps = 0;
        s.depth += 1;
        let saved = s.steps;
        s.steps = 0;
        Sc::inject(c);
        let s = st();
        if s.steps > s.max_steps_seen {
            s.max_steps_seen = s.steps;
        }
        s.steps = saved;
        s.depth -= 1;
        n += 1;
    }
}

/// A shim lock is held by a suspended operation: this schedule is outside the class explored.
#[inline(never)]
pub fn blocked_impl(_addr: usize) {
    st().blocked_seen = true;
    kani::assume(false);
}

/// Begin/end bracket for an operation that runs at top level (not injected): resets the own-step
/// counter used by the C18 bound.
pub fn op_begin() {
    st().steps = 0;
}
pub fn op_end() {
    let s = st();
    if s.steps > s.max_steps_seen {
        s.max_steps_seen = s.steps;
    }
}

/// Generates the concrete, non-generic functions a harness needs for `#[kani::stub]` and for
/// `rt::install` in native replay.
#[macro_export]
macro_rules! sched_hooks {
    ($modname:ident, $sc:ty) => {
        pub mod $modname {
            use super::*;
            pub fn point(kind: u8, addr: usize) {
                $crate::sched::point_impl::<$sc>(kind, addr)
            }
            pub fn blocked(addr: usize) {
                $crate::sched::blocked_impl(addr)
            }
            pub fn cv_wait(addr: usize) -> bool {
                $crate::sched::cv_wait_impl::<$sc>(addr);
                true
            }
            pub fn alloc_event(is_alloc: bool, addr: usize, bytes: usize) {
                $crate::allocs::event(is_alloc, addr, bytes);
                // an allocation / deallocation of the queue is a preemption point of kind 13
                // (only harnesses whose `kinds` mask contains it inject there)
                $crate::sched::point_impl::<$sc>($crate::sched::K_ALLOC, addr)
            }
            #[cfg(not(kani))]
            pub fn install() {
                multiqueue2::verif_hooks::rt::install(multiqueue2::verif_hooks::rt::Hooks {
                    point,
                    blocked,
                    cv_wait,
                    alloc_event,
                });
            }
        }
    };
}

/// Declares a Kani proof harness `$name` whose scheduler glue is `$sc` and whose body is `$body`.
/// Whole-queue harnesses replace the `MemoryManager` entry points by the never-reclaiming ledger
/// stubs of `/repo/src/verif_hooks/memory_access.rs` (DESIGN.md section 3.3) and redirect the
/// absolute-path `std::thread::sleep` of `FutWait::fut_wait` to the shim.
#[macro_export]
macro_rules! mq_harness {
    ($name:ident, $hooks:ident, $sc:ty, $body:expr) => {
        $crate::sched_hooks!($hooks, $sc);

        #[cfg_attr(kani, kani::proof)]
        #[cfg_attr(kani, kani::stub(multiqueue2::verif_hooks::rt::point, $hooks::point))]
        #[cfg_attr(kani, kani::stub(multiqueue2::verif_hooks::rt::blocked, $hooks::blocked))]
        #[cfg_attr(kani, kani::stub(multiqueue2::verif_hooks::rt::cv_wait, $hooks::cv_wait))]
        #[cfg_attr(kani, kani::stub(multiqueue2::verif_hooks::rt::alloc_event, $hooks::alloc_event))]
        #[cfg_attr(kani, kani::stub(multiqueue2::verif_hooks::MemoryManager::get_token, multiqueue2::verif_hooks::memory_access::stub_get_token))]
        #[cfg_attr(kani, kani::stub(multiqueue2::verif_hooks::MemoryManager::remove_token, multiqueue2::verif_hooks::memory_access::stub_remove_token))]
        #[cfg_attr(kani, kani::stub(multiqueue2::verif_hooks::MemoryManager::update_token, multiqueue2::verif_hooks::memory_access::stub_update_token))]
        #[cfg_attr(kani, kani::stub(multiqueue2::verif_hooks::MemoryManager::free, multiqueue2::verif_hooks::memory_access::stub_free))]
        #[cfg_attr(kani, kani::stub(multiqueue2::memory::ToFree::delete, multiqueue2::verif_hooks::memory_access::stub_delete))]
        #[cfg_attr(kani, kani::stub(std::thread::sleep, multiqueue2::verif_hooks::sleep))]
        pub fn $name() {
            #[cfg(not(kani))]
            $hooks::install();
            $body
        }
    };
}

/// Like `mq_harness!` but with the REAL memory manager (no stubs for get_token / remove_token /
/// update_token / free / ToFree::delete).  The explicit pipeline restricts the function pointer in
/// `ToFree::delete` to the `do_free::<T>` instances present (DESIGN.md section 3.3).
#[macro_export]
macro_rules! mq_harness_real {
    ($name:ident, $hooks:ident, $sc:ty, $body:expr) => {
        $crate::sched_hooks!($hooks, $sc);

        #[cfg_attr(kani, kani::proof)]
        #[cfg_attr(kani, kani::stub(multiqueue2::verif_hooks::rt::point, $hooks::point))]
        #[cfg_attr(kani, kani::stub(multiqueue2::verif_hooks::rt::blocked, $hooks::blocked))]
        #[cfg_attr(kani, kani::stub(multiqueue2::verif_hooks::rt::cv_wait, $hooks::cv_wait))]
        #[cfg_attr(kani, kani::stub(multiqueue2::verif_hooks::rt::alloc_event, $hooks::alloc_event))]
        #[cfg_attr(kani, kani::stub(std::thread::sleep, multiqueue2::verif_hooks::sleep))]
        pub fn $name() {
            #[cfg(not(kani))]
            $hooks::install();
            $body
        }
    };
}
