//! Event ledger and the oracles that are evaluated over it.
//!
//! Every operation a scenario performs has a fixed record slot whose static part (what kind of
//! operation, by which actor, on which stream, which id it sends) is declared concretely during
//! set-up.  Running the operation fills in the dynamic part: logical begin/end times and the
//! result.  All oracles are assertions over this table, labelled with the property they belong to.

pub const MAXREC: usize = 44;
pub const MAXID: usize = 16; // payload ids 1..=15, 0 = none
pub const MAXSTREAM: usize = 4;
/// max. send records considered by the order oracle
pub const MAXSEND: usize = 12;

pub const OP_NONE: u8 = 0;
pub const OP_SEND: u8 = 1;
pub const OP_RECV: u8 = 2;
pub const OP_OTHER: u8 = 3;

pub const R_NONE: u8 = 0; // not executed
pub const R_OK: u8 = 1;
pub const R_FULL: u8 = 2;
pub const R_EMPTY: u8 = 3;
pub const R_DISC: u8 = 4;
pub const R_NOTREADY: u8 = 5;
pub const R_DONE: u8 = 6; // non send/recv operation finished

#[derive(Copy, Clone)]
pub struct Rec {
    pub kind: u8,
    pub actor: u8,
    pub stream: u8,
    /// send: id offered; recv: id obtained (0 if none)
    pub id: u8,
    pub res: u8,
    pub tb: u8,
    pub te: u8,
    /// quiescent-phase operation (probe / drain), excluded from concurrent-phase oracles
    pub quiescent: bool,
}

pub const EMPTY_REC: Rec = Rec {
    kind: OP_NONE,
    actor: 0,
    stream: 0,
    id: 0,
    res: R_NONE,
    tb: 0,
    te: 0,
    quiescent: false,
};

pub struct Ledger {
    pub clock: u8,
    pub recs: [Rec; MAXREC],
    /// slot of the send operation that offers id x (0 = no such send; slot 0 is never a send of id 0)
    pub send_slot: [u8; MAXID],
    pub has_send: [bool; MAXID],
}

pub static mut LEDGER: Ledger = Ledger {
    clock: 0,
    recs: [EMPTY_REC; MAXREC],
    send_slot: [0; MAXID],
    has_send: [false; MAXID],
};

#[inline(always)]
pub fn lg() -> &'static mut Ledger {
    unsafe { &mut *std::ptr::addr_of_mut!(LEDGER) }
}

pub fn reset() {
    let l = lg();
    l.clock = 0;
    let mut i = 0;
    while i < MAXREC {
        l.recs[i] = EMPTY_REC;
        i += 1;
    }
    let mut x = 0;
    while x < MAXID {
        l.send_slot[x] = 0;
        l.has_send[x] = false;
        x += 1;
    }
}

#[inline(always)]
pub fn tick() -> u8 {
    let l = lg();
    l.clock += 1;
    l.clock
}

pub fn declare_send(slot: usize, actor: u8, id: u8) {
    let l = lg();
    l.recs[slot].kind = OP_SEND;
    l.recs[slot].actor = actor;
    l.recs[slot].id = id;
    l.send_slot[id as usize] = slot as u8;
    l.has_send[id as usize] = true;
}

pub fn declare_recv(slot: usize, actor: u8, stream: u8) {
    let l = lg();
    l.recs[slot].kind = OP_RECV;
    l.recs[slot].actor = actor;
    l.recs[slot].stream = stream;
}

pub fn declare_other(slot: usize, actor: u8) {
    let l = lg();
    l.recs[slot].kind = OP_OTHER;
    l.recs[slot].actor = actor;
}

pub fn mark_quiescent(slot: usize) {
    lg().recs[slot].quiescent = true;
}

#[inline(always)]
pub fn begin(slot: usize) {
    let t = tick();
    lg().recs[slot].tb = t;
}

#[inline(always)]
pub fn end_send(slot: usize, res: u8) {
    let t = tick();
    let r = &mut lg().recs[slot];
    r.res = res;
    r.te = t;
}

#[inline(always)]
pub fn end_recv(slot: usize, res: u8, id: u8) {
    let t = tick();
    let r = &mut lg().recs[slot];
    r.res = res;
    r.id = id;
    r.te = t;
}

#[inline(always)]
pub fn end_other(slot: usize) {
    let t = tick();
    let r = &mut lg().recs[slot];
    r.res = R_DONE;
    r.te = t;
}

pub fn accepted(id: usize) -> bool {
    let l = lg();
    l.has_send[id] && l.recs[l.send_slot[id] as usize].res == R_OK
}

pub fn refused(id: usize) -> bool {
    let l = lg();
    l.has_send[id] && {
        let r = l.recs[l.send_slot[id] as usize].res;
        r != R_OK && r != R_NONE
    }
}

pub fn n_accepted() -> u8 {
    let mut n = 0;
    let mut x = 1;
    while x < MAXID {
        if accepted(x) {
            n += 1;
        }
        x += 1;
    }
    n
}

/// number of successful receives of id `x` on stream `s`
pub fn delivered(s: u8, x: u8) -> u8 {
    let l = lg();
    let mut n = 0;
    let mut i = 0;
    while i < MAXREC {
        let r = &l.recs[i];
        if r.kind == OP_RECV && r.stream == s && r.res == R_OK && r.id == x {
            n += 1;
        }
        i += 1;
    }
    n
}

pub fn n_delivered(s: u8) -> u8 {
    let l = lg();
    let mut n = 0;
    let mut i = 0;
    while i < MAXREC {
        let r = &l.recs[i];
        if r.kind == OP_RECV && r.stream == s && r.res == R_OK {
            n += 1;
        }
        i += 1;
    }
    n
}

// ------------------------------------------------------------------------------------------
// C01: exactly-once delivery

/// `full` bit s: stream s was subscribed from before the first send until the end and has been
/// drained, so it owes every accepted id exactly once.  Streams without the bit only owe "at most
/// once, and only accepted values".
pub fn check_c01(nstreams: u8, full: u8) {
    let l = lg();
    // every successful receive produced a real id
    let mut i = 0;
    while i < MAXREC {
        let r = &l.recs[i];
        if r.kind == OP_RECV && r.res == R_OK {
            assert!(
                r.id >= 1 && (r.id as usize) < MAXID && l.has_send[r.id as usize],
                "C01: a stream delivered a value that was never sent"
            );
        }
        i += 1;
    }
    let mut s = 0;
    while s < nstreams {
        let mut x = 1;
        while x < MAXID {
            if l.has_send[x] {
                let cnt = delivered(s, x as u8);
                assert!(cnt <= 1, "C01: a value was delivered twice on one stream");
                if cnt >= 1 {
                    assert!(
                        accepted(x),
                        "C01: a stream delivered a value whose send was refused"
                    );
                }
                if (full >> s) & 1 == 1 && accepted(x) {
                    assert!(cnt == 1, "C01: an accepted value was never delivered to a stream that drained");
                }
            }
            x += 1;
        }
        s += 1;
    }
}

// ------------------------------------------------------------------------------------------
// C02: one common FIFO order (acyclicity of the observed precedence relation)

pub fn check_c02() {
    // Nodes of the precedence graph are the (concretely known) send records; a successful receive
    // is attached to the send whose id it delivered.  All array indices below are concrete; only
    // the edge conditions are symbolic (this keeps the oracle cheap for the solver and for symex).
    let l = lg();
    let mut sends = [0usize; MAXSEND];
    let mut ns = 0;
    let mut i = 0;
    while i < MAXREC {
        if l.recs[i].kind == OP_SEND && ns < MAXSEND {
            sends[ns] = i;
            ns += 1;
        }
        i += 1;
    }
    let mut before = [[false; MAXSEND]; MAXSEND];
    // (a) program order of one producer and (b) real-time order of non-overlapping sends
    let mut p = 0;
    while p < ns {
        let a = l.recs[sends[p]];
        let mut q = 0;
        while q < ns {
            let b = l.recs[sends[q]];
            if p != q && a.res == R_OK && b.res == R_OK && a.te < b.tb {
                before[p][q] = true;
            }
            q += 1;
        }
        p += 1;
    }
    // (c,d) receive a returned before receive b began, on the same stream: id(a) before id(b)
    // (e)   receive a returned before send q began: id(a) before q
    let mut i = 0;
    while i < MAXREC {
        let a = l.recs[i];
        if a.kind == OP_RECV {
            let a_ok = a.res == R_OK;
            let mut j = 0;
            while j < MAXREC {
                let b = l.recs[j];
                if j != i && b.kind == OP_RECV && b.stream == a.stream {
                    let c = a_ok && b.res == R_OK && a.te < b.tb;
                    let mut p = 0;
                    while p < ns {
                        let ida = l.recs[sends[p]].id;
                        let mut q = 0;
                        while q < ns {
                            if p != q && c && a.id == ida && b.id == l.recs[sends[q]].id {
                                before[p][q] = true;
                            }
                            q += 1;
                        }
                        p += 1;
                    }
                }
                j += 1;
            }
            let mut q = 0;
            while q < ns {
                let b = l.recs[sends[q]];
                let c = a_ok && b.res == R_OK && a.te < b.tb;
                let mut p = 0;
                while p < ns {
                    if p != q && c && a.id == l.recs[sends[p]].id {
                        before[p][q] = true;
                    }
                    p += 1;
                }
                q += 1;
            }
        }
        i += 1;
    }
    // transitive closure over the send records
    let mut k = 0;
    while k < ns {
        let mut x = 0;
        while x < ns {
            let mut y = 0;
            while y < ns {
                if before[x][k] && before[k][y] {
                    before[x][y] = true;
                }
                y += 1;
            }
            x += 1;
        }
        k += 1;
    }
    let mut x = 0;
    while x < ns {
        assert!(
            !before[x][x],
            "C02: deliveries are not consistent with one common FIFO order"
        );
        x += 1;
    }
}

// ------------------------------------------------------------------------------------------
// C03: capacity bound

/// `n`: normalised capacity.  `nstreams`/`full` as in check_c01 (only streams subscribed
/// throughout limit the senders for the whole run).
pub fn check_c03(n: u8, nstreams: u8, full: u8) {
    let l = lg();
    let mut i = 0;
    while i < MAXREC {
        let a = l.recs[i];
        if a.kind == OP_SEND && a.res == R_OK {
            // sends accepted (returned Ok) no later than this one, including it
            let mut acc: u8 = 0;
            let mut j = 0;
            while j < MAXREC {
                let b = l.recs[j];
                if b.kind == OP_SEND && b.res == R_OK && b.te <= a.te {
                    acc += 1;
                }
                j += 1;
            }
            let mut s = 0;
            while s < nstreams {
                if (full >> s) & 1 == 1 {
                    // successful receives on s that had begun when this send returned
                    let mut beg: u8 = 0;
                    let mut j = 0;
                    while j < MAXREC {
                        let b = l.recs[j];
                        if b.kind == OP_RECV && b.stream == s && b.res == R_OK && b.tb < a.te {
                            beg += 1;
                        }
                        j += 1;
                    }
                    assert!(
                        acc <= beg + n,
                        "C03: more than N accepted values unconsumed by a subscribed stream"
                    );
                }
                s += 1;
            }
        }
        i += 1;
    }
}

/// Native replay only: print the ledger (part of the replay report).
#[cfg(not(kani))]
pub fn dump() {
    let l = lg();
    println!("ledger (clock {}):", l.clock);
    for i in 0..MAXREC {
        let r = l.recs[i];
        if r.kind != OP_NONE && r.res != R_NONE {
            let kind = match r.kind {
                OP_SEND => "send",
                OP_RECV => "recv",
                _ => "other",
            };
            let res = match r.res {
                R_OK => "Ok",
                R_FULL => "Full",
                R_EMPTY => "Empty",
                R_DISC => "Disconnected",
                R_NOTREADY => "NotReady",
                R_DONE => "done",
                _ => "?",
            };
            println!(
                "  slot {:2} actor {} {:5} stream {} id {:2} -> {:12} t=[{},{}]{}",
                i, r.actor, kind, r.stream, r.id, res, r.tb, r.te, if r.quiescent { " (quiescent phase)" } else { "" }
            );
        }
    }
}
