//! Basic traffic scenarios (serve C01, C02, C03, C06, C18).

use crate::finish::*;
use crate::fl::*;
use crate::ledger;
use crate::sched;
use crate::world::*;
use std::marker::PhantomData;

// S1: two producers (multi-writer mode) and one consumer on one stream.
//   actor 0: tx0 sends 1, 2     actor 1: tx1 sends 3, 4     actor 2: rx0 receives twice
pub struct S1<F>(PhantomData<F>);

impl<F: Fl> Prog for S1<F> {
    const NACT: usize = 3;
    const LEN: [u8; MAXACT] = [2, 2, 2, 0];
    const BASE: [usize; MAXACT] = [0, 4, 8, 0];
    #[inline(always)]
    fn step(a: usize, k: usize) {
        match a {
            0 => op_send::<F>(k, 0, 1 + k as u8),
            1 => op_send::<F>(4 + k, 1, 3 + k as u8),
            _ => op_recv::<F>(8 + k, 0),
        }
    }
}

pub fn s1<F: Fl, const OUTER: usize>(cap: u64, n: u8, budget: u8) {
    ledger::reset();
    sched::configure(1, budget, sched::MEM_KINDS, 1);
    let mut w = World::<F>::new(cap);
    set_world::<F>(&mut w);
    // second producer: from here on the queue is in multi-writer mode
    w.tx[1] = Some(F::clone_tx(w.tx[0].as_ref().unwrap()));
    for k in 0..2 {
        ledger::declare_send(k, 0, 1 + k as u8);
        ledger::declare_send(4 + k, 1, 3 + k as u8);
        ledger::declare_recv(8 + k, 2, 0);
    }
    run_concurrent::<S1<F>, OUTER>();
    kani::cover!(sched::st().injected > 0, "an operation ran at a preemption point");
    finish::<F>(&Finish {
        n,
        nstreams: 1,
        full: 1,
        drain_rx: [0, 0, 0],
        probe_tx: 0,
        probe_id0: 5,
    });
    std::mem::forget(w);
}

type MpB = MpmcPlain<u8, Busy>;
type BcB = BcastPlain<u8, Busy>;

crate::mq_harness!(h_s1_mpmc_n2_o0, hk_s1_mpmc_n2_o0, Runner<S1<MpB>, 0>, s1::<MpB, 0>(2, 2, 1));
