//! Quiescent phase shared by the concurrent scenarios: probe, drain, oracles.

use crate::fl::Fl;
use crate::ledger::{self, *};
use crate::world::*;

pub const PRE_SEND_SLOT0: usize = 12;
pub const PRE_RECV_SLOT0: usize = 16;
pub const PROBE_SLOT0: usize = 24;
pub const DRAIN_SLOT0: usize = 30;

pub struct Finish {
    /// normalised capacity
    pub n: u8,
    pub nstreams: u8,
    /// bit s: stream s was subscribed throughout and is drained below
    pub full: u8,
    /// receiver slot used to drain stream s (only for streams with the `full` bit)
    pub drain_rx: [usize; 3],
    /// sender slot used for the probe (must be alive)
    pub probe_tx: usize,
    /// first id used by the probe sends
    pub probe_id0: u8,
}

/// C06 + C01 + C02 + C03 over the finished concurrent phase.  All senders used by the probe are
/// alive, so a drained stream must end with Empty.
pub fn finish<F: Fl>(f: &Finish) {
    // outstanding per stream at quiescence
    let acc = ledger::n_accepted();
    let mut max_out: u8 = 0;
    let mut s = 0;
    while s < f.nstreams {
        if (f.full >> s) & 1 == 1 {
            let d = ledger::n_delivered(s);
            assert!(d <= acc, "C01: a stream delivered more values than were accepted");
            let out = acc - d;
            if out > max_out {
                max_out = out;
            }
        }
        s += 1;
    }
    assert!(max_out <= f.n, "C03: more than N values outstanding at quiescence");
    // probe: exactly N - outstanding further sends are accepted
    let room = f.n - max_out;
    let got = probe_fill::<F>(PROBE_SLOT0, f.probe_tx, f.probe_id0, f.n as usize + 1);
    assert!(
        got == room,
        "C06: at quiescence the number of further sends accepted differs from N minus outstanding"
    );
    // drain: every stream yields exactly its outstanding values, then Empty
    let total = acc + got;
    let mut s = 0;
    let mut slot = DRAIN_SLOT0;
    while s < f.nstreams {
        if (f.full >> s) & 1 == 1 {
            let before = ledger::n_delivered(s);
            let last = drain::<F>(slot, f.drain_rx[s as usize], (f.n as usize) + 1);
            slot += f.n as usize + 1;
            assert!(
                last == R_EMPTY,
                "C06: a drained stream did not end with Empty although senders are alive"
            );
            let after = ledger::n_delivered(s);
            assert!(
                after == total && after - before <= f.n,
                "C06: at quiescence a stream could not drain exactly its outstanding values"
            );
        }
        s += 1;
    }
    ledger::check_c01(f.nstreams, f.full);
    ledger::check_c02();
    ledger::check_c03(f.n, f.nstreams, f.full);
}
