//! C08: a blocked receiver always wakes when a value or the end is available.
//!
//! The outer operation is a *blocking* receive.  The other actors (a producer that sends and/or
//! drops its handle, a sibling consumer that takes one value and leaves) run at the preemption
//! points of the waiter and inside the shim condvar wait.  When nobody is left to run and the
//! waiter still cannot return, the stuck detector decides: a value it could take, or no sender
//! left, means a lost wake-up; otherwise the thread is legitimately blocked and the path is cut.
//!
//!   KIND 1: actor 0 = blocking recv on rx0 (sole consumer)   actor 1: tx0 sends 1
//!   KIND 2: actor 0 = blocking recv on rx0                   actor 1: tx0 sends 1, then drops tx0
//!   KIND 3: actor 0 = blocking recv on rx0                   actor 1: drops tx0 (no value)
//!   KIND 4: actor 0 = blocking recv on rx0, actor 2 = sibling rx1 try_recv (shared stream)
//!           actor 1: tx0 sends 1, sends 2
//!   KIND 5: actor 0 = blocking recv_view on ux0              actor 1: tx0 sends 1
//!   KIND 6: actor 0 = blocking recv on rx0; tx1 = clone of tx0 exists
//!           actor 1: drops tx1, then tx0 sends 1 (the sender falls back to single-writer mode)
//!   KIND 7: actor 0 = blocking recv on rx0; tx1 = clone of tx0 exists
//!           actor 1: drops tx0      actor 2: drops tx1      (nesting depth 2: one drop may be
//!           preempted by the other while the receiver is parked)
//!   KIND 8: like 1, but during set-up tx0 was cloned and the clone dropped again: tx0's first send
//!           after becoming the only sender again goes through the Multi -> Uni fallback
//! With `lap` the ring is first lapped once (N sends, N receives): on a never-written slot the
//! wait condition is immediately true (the initial tag counts as "ahead"), so only on a lapped
//! ring does the receiver really go to sleep.

use crate::fl::*;
use crate::ledger::{self, lg, *};
use crate::payload;
use crate::sched;
use crate::world::*;
use std::marker::PhantomData;

pub struct Wt<F, const KIND: u8>(PhantomData<F>);

pub fn op_u_view_blocking<F: Fl>(slot: usize, ux: usize) {
    ledger::begin(slot);
    let u = unsafe { (*std::ptr::addr_of_mut!((*wp::<F>()).ux[ux])).as_mut().unwrap() };
    match F::u_view(u) {
        Ok(id) => ledger::end_recv(slot, R_OK, id),
        Err(_) => ledger::end_recv(slot, R_DISC, 0),
    }
}

impl<F: Fl, const KIND: u8> Prog for Wt<F, KIND> {
    const NACT: usize = if KIND == 4 || KIND == 7 { 3 } else { 2 };
    const LEN: [u8; MAXACT] = [
        1,
        if KIND == 2 || KIND == 4 || KIND == 6 { 2 } else { 1 },
        if KIND == 4 || KIND == 7 { 1 } else { 0 },
        0,
    ];
    const BASE: [usize; MAXACT] = [0, 4, 8, 0];
    #[inline(always)]
    fn step(a: usize, k: usize) {
        match (KIND, a, k) {
            (5, 0, _) => op_u_view_blocking::<F>(0, 0),
            (_, 0, _) => op_recv_blocking::<F>(0, 0),
            (3, 1, _) => op_drop_tx::<F>(4, 0),
            (7, 1, _) => op_drop_tx::<F>(4, 0),
            (7, _, _) => op_drop_tx::<F>(8, 1),
            (6, 1, 0) => op_drop_tx::<F>(5, 1),
            (2, 1, 1) => op_drop_tx::<F>(5, 0),
            (4, 1, 1) => op_send::<F>(5, 0, 2),
            (_, 1, _) => op_send::<F>(4, 0, 1),
            (_, _, _) => op_recv::<F>(8, 1),
        }
    }
    /// nobody else can run and the waiter is not returning
    fn stuck() {
        let l = lg();
        let acc = ledger::n_accepted();
        let del = ledger::n_delivered(0);
        let senders_gone = match KIND {
            2 => l.recs[5].res == R_DONE,
            3 => l.recs[4].res == R_DONE,
            7 => l.recs[4].res == R_DONE && l.recs[8].res == R_DONE,
            _ => false,
        };
        kani::cover!(acc == del && !senders_gone, "a waiter was legitimately left blocked");
        assert!(
            acc <= del,
            "C08: a consumer stays blocked although a value it can take is in the queue"
        );
        assert!(
            !senders_gone,
            "C08: a consumer stays blocked although the last sender is gone"
        );
    }
}

pub fn blocked_recv<F: Fl, const KIND: u8>(cap: u64, idle_limit: u32) {
    blocked_recv_lap::<F, KIND>(cap, idle_limit, 0)
}

pub fn blocked_recv_lap<F: Fl, const KIND: u8>(cap: u64, idle_limit: u32, lap: u8) {
    ledger::reset();
    payload::reset();
    // one operation per site; the budget is the number of operations the others have
    let others: u8 = match KIND {
        2 | 6 | 7 => 2,
        4 => 3,
        _ => 1,
    };
    let depth: u8 = if KIND == 7 { 2 } else { 1 };
    // window: in front of loads, lock operations and notifications (the waiter's own stores / RMWs
    // - its position commit - are not preemption points in these harnesses)
    sched::configure(depth, others, sched::WIN_LOADS | (1 << 3) | (1 << 4) | (1 << 6) | (1 << 7) | (1 << 9), 1);
    sched::st().idle_limit = if idle_limit == 0 { 24 } else { idle_limit };
    let mut w = World::<F>::new(cap);
    set_world::<F>(&mut *w);
    // lap the ring once: `lap` = N sends each followed by a receive
    let mut i = 0;
    while i < lap {
        let ss = crate::finish::PRE_SEND_SLOT0 + i as usize;
        let rs = crate::finish::PRE_RECV_SLOT0 + i as usize;
        ledger::declare_send(ss, 8, 5 + i);
        ledger::declare_recv(rs, 8, 0);
        op_send::<F>(ss, 0, 5 + i);
        op_recv::<F>(rs, 0);
        assert!(lg().recs[rs].res == R_OK, "C09: a receive on a non-empty quiescent queue did not deliver");
        i += 1;
    }
    if KIND == 6 || KIND == 7 || KIND == 8 {
        w.tx[1] = Some(F::clone_tx(w.tx[0].as_ref().unwrap()));
    }
    if KIND == 8 {
        drop(w.tx[1].take());
    }
    if KIND == 4 {
        w.rx[1] = Some(F::clone_rx(w.rx[0].as_ref().unwrap()));
    }
    if KIND == 5 {
        let r = w.rx[0].take().unwrap();
        match F::into_single(r) {
            Ok(u) => w.ux[0] = Some(u),
            Err(_) => unreachable!(),
        }
    }
    ledger::declare_recv(0, 0, 0);
    match KIND {
        3 => ledger::declare_other(4, 1),
        2 => {
            ledger::declare_send(4, 1, 1);
            ledger::declare_other(5, 1);
        }
        4 => {
            ledger::declare_send(4, 1, 1);
            ledger::declare_send(5, 1, 2);
            ledger::declare_recv(8, 2, 0);
        }
        6 => {
            ledger::declare_other(5, 1);
            ledger::declare_send(4, 1, 1);
        }
        7 => {
            ledger::declare_other(4, 1);
            ledger::declare_other(8, 2);
        }
        _ => ledger::declare_send(4, 1, 1),
    }
    run_concurrent::<Wt<F, KIND>, 0>();
    if lap > 0 && idle_limit == 0 {
        kani::cover!(sched::st().cv_entered, "the receiver really went to sleep on the condvar");
    }
    // the waiter returned: with a value, or with the end only if the sender is really gone
    let r = lg().recs[0];
    kani::cover!(r.res == R_OK, "the blocked receiver returned a value");
    kani::cover!(sched::st().injected > 0, "an operation ran while the receiver was waiting");
    if r.res == R_DISC {
        assert!(KIND == 2 || KIND == 3 || KIND == 7, "C07: a blocked receive reported the end while a sender was alive");
        if KIND == 7 {
            assert!(
                lg().recs[8].tb != 0 && lg().recs[8].tb < r.te,
                "C07: a blocked receive reported the end before the last sender's drop began"
            );
        }
        let dslot = if KIND == 2 { 5 } else { 4 };
        assert!(
            lg().recs[dslot].tb != 0 && lg().recs[dslot].tb < r.te,
            "C07: a blocked receive reported the end before the last sender's drop began"
        );
        if KIND == 2 && lg().recs[4].res == R_OK {
            assert!(false, "C07: a blocked receive reported the end while an accepted value was undelivered");
        }
    }
    ledger::check_c01(1, 0);
    let _ = &w; // ManuallyDrop: never dropped
}

pub type MpBlk00 = MpmcPlain<u8, Blocking<0, 0>>;
pub type BcBlk00 = BcastPlain<u8, Blocking<0, 0>>;
pub type MpBlk11 = MpmcPlain<u8, Blocking<1, 1>>;
pub type BcBlk20 = BcastPlain<u8, Blocking<2, 0>>;
pub type MpBusy = MpmcPlain<u8, Busy>;
pub type BcYield11 = BcastPlain<u8, Yielding<1, 1>>;
pub type MpYield00 = MpmcPlain<u8, Yielding<0, 1>>;

macro_rules! wt {
    ($name:ident, $hk:ident, $f:ty, $kind:literal, $idle:expr) => {
        crate::mq_harness!($name, $hk, Runner<Wt<$f, $kind>, 0>, blocked_recv::<$f, $kind>(2, $idle));
    };
    ($name:ident, $hk:ident, $f:ty, $kind:literal, $idle:expr, cap $cap:literal) => {
        crate::mq_harness!($name, $hk, Runner<Wt<$f, $kind>, 0>, blocked_recv::<$f, $kind>($cap, $idle));
    };
    ($name:ident, $hk:ident, $f:ty, $kind:literal, $idle:expr, cap $cap:literal, lap $lap:literal) => {
        crate::mq_harness!($name, $hk, Runner<Wt<$f, $kind>, 0>, blocked_recv_lap::<$f, $kind>($cap, $idle, $lap));
    };
}

// BlockingWait (condvar): the stuck detector sits in the shim condvar wait
wt!(c08_mp_blk00_send, hk_c08_mp_blk00_send, MpBlk00, 1, 0);
wt!(c08_bc_blk00_senddrop, hk_c08_bc_blk00_senddrop, BcBlk00, 2, 0);
wt!(c08_mp_blk00_drop, hk_c08_mp_blk00_drop, MpBlk00, 3, 0);
wt!(c08_bc_blk00_sibling, hk_c08_bc_blk00_sibling, BcBlk00, 4, 0);
// N = 1: the producer laps the ring between two looks of the waiter
wt!(c08_bc_blk00_sibling_n1, hk_c08_bc_blk00_sibling_n1, BcBlk00, 4, 0, cap 1);
wt!(c08_mp_blk00_sibling_n1, hk_c08_mp_blk00_sibling_n1, MpBlk00, 4, 0, cap 1);
wt!(c08_mp_blk11_send, hk_c08_mp_blk11_send, MpBlk11, 1, 0);
wt!(c08_bc_blk20_view, hk_c08_bc_blk20_view, BcBlk20, 5, 0);
// lapped ring: the receiver really parks
wt!(c08_mp_blk00_send_lap, hk_c08_mp_blk00_send_lap, MpBlk00, 1, 0, cap 1, lap 1);
wt!(c08_bc_blk00_senddrop_lap, hk_c08_bc_blk00_senddrop_lap, BcBlk00, 2, 0, cap 2, lap 2);
wt!(c08_mp_blk00_drop_lap, hk_c08_mp_blk00_drop_lap, MpBlk00, 3, 0, cap 1, lap 1);
wt!(c08_bc_blk00_sibling_lap, hk_c08_bc_blk00_sibling_lap, BcBlk00, 4, 0, cap 1, lap 1);
wt!(c08_mp_blk00_lonesender_lap, hk_c08_mp_blk00_lonesender_lap, MpBlk00, 6, 0, cap 1, lap 1);
wt!(c08_bc_blk11_lonesender_lap, hk_c08_bc_blk11_lonesender_lap, BcastPlain<u8, Blocking<1, 1>>, 6, 0, cap 2, lap 2);
wt!(c08_mp_blk00_exmulti_lap, hk_c08_mp_blk00_exmulti_lap, MpBlk00, 8, 0, cap 1, lap 1);
wt!(c08_bc_blk00_exmulti_lap, hk_c08_bc_blk00_exmulti_lap, BcBlk00, 8, 0, cap 2, lap 2);
wt!(c08_mp_blk00_twodrops_lap, hk_c08_mp_blk00_twodrops_lap, MpBlk00, 7, 0, cap 1, lap 1);
wt!(c08_bc_blk20_view_lap, hk_c08_bc_blk20_view_lap, BcBlk20, 5, 0, cap 1, lap 1);
// spinning strategies: the stuck detector fires after 24 fruitless steps with nobody left to run
wt!(c08_mp_busy_send, hk_c08_mp_busy_send, MpBusy, 1, 24);
wt!(c08_mp_busy_drop, hk_c08_mp_busy_drop, MpBusy, 3, 24);
wt!(c08_bc_yield11_senddrop, hk_c08_bc_yield11_senddrop, BcYield11, 2, 24);
wt!(c08_mp_yield01_sibling, hk_c08_mp_yield01_sibling, MpYield00, 4, 24);
wt!(c08_mp_busy_sibling_n1, hk_c08_mp_busy_sibling_n1, MpBusy, 4, 24, cap 1);

// C15: the direct (non-Stream) blocking recv of a futures receiver must behave like the plain one
wt!(c15_mpfut_direct_recv, hk_c15_mpfut_direct_recv, MpmcFut<u8, 0, 0>, 1, 0);
wt!(c15_bcfut_direct_recv_drop, hk_c15_bcfut_direct_recv_drop, BcastFut<u8, 0, 0>, 3, 0);
