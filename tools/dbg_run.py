#!/usr/bin/env python3
"""Debug helper: prepare + run one harness from an existing codegen dir, verbose, with a timeout.
usage: dbg_run.py <build_dir> <harness> <timeout_s> [--trace]"""
import sys, os, json, glob, time
sys.path.insert(0, os.path.dirname(os.path.abspath(__file__)))
import pipeline as P
import registry as R

build, name, tmo = sys.argv[1], sys.argv[2], int(sys.argv[3])
metas = {}
for fn in glob.glob(build + '/kani/x86_64-unknown-linux-gnu/debug/build/mq2_harness/*/out/*.kani-metadata.json'):
    for h in json.load(open(fn))['proof_harnesses']:
        metas[h['pretty_name'].split('::')[-1]] = h
m = metas[name]
cfg = R.config_for(name)
out, steps = P.prepare(m, build + '/work', fp_restrict=cfg.get('fp_restrict'), remove_bodies=cfg.get('remove_bodies'))
loops = P.show_loops(out)
us, table = P.unwindset_for(loops, cfg['rules'], cfg['unwind'])
log = build + '/work/' + name + '.cbmc.json'
r = P.run_cbmc(out, cfg['unwind'], us, tmo, cfg.get('mem_gb', 16), log, trace='--trace' in sys.argv)
print(r['status'], 'wall %.1f' % r['wall_s'], r.get('stats'))
c = P.classify(r['props'])
for k, v in c.items():
    print(k, v if not isinstance(v, list) or len(v) < 12 else (len(v), v[:6]))
