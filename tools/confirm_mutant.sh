#!/bin/bash
# usage: confirm_mutant.sh <tag> <worktree> <mutdir>   -> writes <mutdir>/confirm.log
# Confirms: patch applies to a clean tree, demo fails with it, demo passes without it,
# existing suite passes with it.
tag=$1; wt=$2; md=$3
log=$md/confirm.log
exec > $log 2>&1
set -x
cd $wt || exit 9
git checkout -q -- . ; git clean -fdq tests src
git apply --check $md/patch.diff || { echo "PATCH DOES NOT APPLY"; exit 9; }
cp $md/demo.rs tests/demo_$tag.rs
echo "=== demo WITHOUT change"
timeout 900 cargo test --offline --test demo_$tag -- --test-threads 4 > $md/demo_clean.out 2>&1; echo "demo_clean rc=$?"
tail -5 $md/demo_clean.out
git apply $md/patch.diff
echo "=== demo WITH change"
timeout 900 cargo test --offline --test demo_$tag -- --test-threads 4 > $md/demo_mut.out 2>&1; echo "demo_mut rc=$?"
tail -15 $md/demo_mut.out
rm tests/demo_$tag.rs
echo "=== suite WITH change"
timeout 1500 cargo test --offline --no-fail-fast -- --test-threads 8 > $md/suite_mut.out 2>&1; echo "suite_mut rc=$?"
grep -E "^test result|FAILED|failed" $md/suite_mut.out
git checkout -q -- . ; git clean -fdq tests src
echo DONE
