#!/usr/bin/env python3
"""Self-validation: run checks against the seeded mutants under /verif/seeded.

For each mutant a scratch worktree of /repo is created under /tmp, the patch applied, the quick
check of the mutant's property (or the properties given) run with MQV_REPO pointing at the
worktree, the outcome recorded in /verif/seeded/<id>/result-<prop>.json, and the worktree removed.
usage: mutant_matrix.py <mutant-id>[,<mutant-id>...] [--props C01,C06] [--tier quick] [--only REGEX]
"""
import json, os, re, subprocess, sys, shutil, time

VERIF = os.path.dirname(os.path.dirname(os.path.abspath(__file__)))

def main():
    ids = sys.argv[1].split(",")
    props = None
    tier = "quick"
    only = None
    a = sys.argv[2:]
    while a:
        if a[0] == "--props": props = a[1].split(","); a = a[2:]
        elif a[0] == "--tier": tier = a[1]; a = a[2:]
        elif a[0] == "--only": only = a[1]; a = a[2:]
        else: a = a[1:]
    for mid in ids:
        d = os.path.join(VERIF, "seeded", mid)
        meta = json.load(open(os.path.join(d, "meta.json")))
        wt = "/tmp/mutwt_%s" % mid
        out = "/tmp/mutout_%s" % mid
        subprocess.run(["git", "-C", "/repo", "worktree", "remove", "--force", wt], stdout=subprocess.DEVNULL, stderr=subprocess.DEVNULL)
        shutil.rmtree(out, ignore_errors=True)
        subprocess.run(["git", "-C", "/repo", "worktree", "add", "-q", "--detach", wt, "HEAD"], check=True)
        try:
            p = subprocess.run(["git", "-C", wt, "apply", os.path.join(d, "patch.diff")], stdout=subprocess.PIPE, stderr=subprocess.STDOUT, text=True)
            if p.returncode != 0:
                print(mid, "PATCH DOES NOT APPLY to current /repo HEAD:", p.stdout[:300]); continue
            for prop in (props or [meta["property"]]):
                env = dict(os.environ, MQV_REPO=wt, MQV_OUT=out)
                cmd = [os.path.join(VERIF, "check"), prop, "--tier", tier]
                if only: cmd += ["--only", only]
                t0 = time.time()
                r = subprocess.run(cmd, stdout=subprocess.PIPE, stderr=subprocess.STDOUT, text=True, env=env, cwd=VERIF)
                viol = [l for l in r.stdout.splitlines() if l.startswith(("VIOLATION", "  harness=", "KNOWN-FINDING", "INCONCLUSIVE", "SIDE-FINDING"))]
                res = dict(mutant=mid, property_checked=prop, tier=tier, only=only, exit_code=r.returncode, wall_s=round(time.time() - t0),
                           detected=(r.returncode == 1), lines=viol[:30], tail=r.stdout.splitlines()[-25:],
                           repo_head=subprocess.run(["git", "-C", "/repo", "rev-parse", "--short", "HEAD"], stdout=subprocess.PIPE, text=True).stdout.strip())
                json.dump(res, open(os.path.join(d, "result-%s.json" % prop), "w"), indent=1)
                print(mid, prop, "exit", r.returncode, "detected" if r.returncode == 1 else "NOT detected", "%ds" % res["wall_s"], flush=True)
                for l in viol[:6]: print("   ", l[:200])
        finally:
            subprocess.run(["git", "-C", "/repo", "worktree", "remove", "--force", wt], stdout=subprocess.DEVNULL, stderr=subprocess.DEVNULL)
            shutil.rmtree(out, ignore_errors=True)

if __name__ == "__main__":
    main()
