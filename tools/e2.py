#!/usr/bin/env python3
"""E2: MIR -> SMT-LIB2 for the loop-free integer kernels (DESIGN.md section 6).

The nightly compiler's MIR of /repo's *current* working tree is dumped, the functions named in
LEMMAS are executed symbolically (64-bit bit-vectors, paths merged with ite), and each lemma is
asserted negated.  `unsat` from z3 AND cvc5 = the lemma holds for every 64-bit input satisfying its
precondition; `sat` = concrete numbers, which are replayed against the natively compiled real
functions before anything is reported; any `(error` line or disagreement = inconclusive.
"""
import os
import re
import shutil
import subprocess
import sys
import time

VERIF = os.path.dirname(os.path.dirname(os.path.abspath(__file__)))
W = 64


class Unsupported(Exception):
    pass


# ---------------------------------------------------------------------------------------------
# MIR parsing

def dump_mir(build_dir):
    os.makedirs(build_dir, exist_ok=True)
    tdir = os.path.join(build_dir, "mir_target")
    env = dict(os.environ)
    env["CARGO_NET_OFFLINE"] = "true"
    env.pop("RUSTFLAGS", None)
    repo = os.environ.get("MQV_REPO", "/repo")
    cmd = ["cargo", "+nightly", "rustc", "--offline", "--lib", "--manifest-path", repo + "/Cargo.toml",
           "--target-dir", tdir, "--", "-Zunpretty=mir", "-C", "debug-assertions=off", "-C", "overflow-checks=on"]
    p = subprocess.run(cmd, stdout=subprocess.PIPE, stderr=subprocess.PIPE, text=True, env=env, cwd=repo)
    if p.returncode != 0 or "fn " not in p.stdout:
        raise RuntimeError("MIR dump failed:\n" + p.stderr[-3000:])
    return p.stdout


def parse_mir(txt):
    """-> {name: dict(params=[(var, type)], ret=type, blocks={bbN: [stmts]}, locals={var:type})}"""
    items = {}
    lines = txt.splitlines()
    i = 0
    fn_head = re.compile(r"^fn (.+?)\((.*)\)( -> (.+?))? \{$")
    const_head = re.compile(r"^(const|static) (.+?): (.+?) = \{$")
    while i < len(lines):
        line = lines[i]
        kind = name = None
        params = []
        ret = "()"
        if line.startswith("fn ") and line.endswith("{"):
            # the parameter list starts at the first '(' that follows the last "::name" segment
            m = re.match(r"^fn (.*?)\((_\d+: .*|)\)( -> (.+?))? \{$", line)
            if m:
                kind, name = "fn", m.group(1)
                if m.group(2):
                    for part in split_top(m.group(2)):
                        pm = re.match(r"\s*(_\d+): (.+)$", part)
                        if pm:
                            params.append((pm.group(1), pm.group(2).strip()))
                ret = m.group(4) or "()"
        elif line.startswith(("const ", "static ")) and line.endswith("= {"):
            m = const_head.match(line)
            if m:
                kind, name, ret = m.group(1), m.group(2), m.group(3)
        if not kind:
            i += 1
            continue
        blocks = {}
        locs = {}
        cur = None
        i += 1
        depth = 1
        while i < len(lines) and depth > 0:
            l = lines[i].strip()
            if l.endswith("{"):
                depth += 1
                bm = re.match(r"^(bb\d+)( \(cleanup\))?: \{$", l)
                if bm:
                    cur = bm.group(1)
                    blocks[cur] = []
            elif l == "}":
                depth -= 1
                if cur and depth == 1:
                    cur = None
            elif cur is not None:
                blocks[cur].append(l)
            else:
                lm = re.match(r"^let (mut )?(_\d+): (.+);$", l)
                if lm:
                    locs[lm.group(2)] = lm.group(3)
            i += 1
        items[name] = dict(kind=kind, params=params, ret=ret.strip(), blocks=blocks, locals=locs)
    return items


def split_top(s):
    out, depth, cur = [], 0, ""
    for ch in s:
        if ch in "(<[":
            depth += 1
        elif ch in ")>]":
            depth -= 1
        if ch == "," and depth == 0:
            out.append(cur)
            cur = ""
        else:
            cur += ch
    if cur.strip():
        out.append(cur)
    return out


# ---------------------------------------------------------------------------------------------
# symbolic values: ('bv', term, width) | ('bool', term) | ('tuple', [v...]) | ('ref', dict) | ('unit',)

def width_of(ty):
    ty = ty.strip()
    if ty in ("usize", "u64", "isize", "i64"):
        return 64
    if ty in ("u32", "i32"):
        return 32
    if ty in ("u8", "i8"):
        return 8
    if ty in ("u16", "i16"):
        return 16
    return None


def bvconst(v, w):
    return "(_ bv%d %d)" % (v % (1 << w), w)


class Exec:
    def __init__(self, items):
        self.items = items
        self.fresh = 0
        self.decls = []
        self.const_cache = {}

    def sym(self, name, w=W):
        self.fresh += 1
        s = "%s_%d" % (name, self.fresh)
        self.decls.append("(declare-const %s (_ BitVec %d))" % (s, w))
        return ("bv", s, w)

    def find(self, name):
        """resolve 'mod::fn' (impl blocks are anonymous in MIR names): the last segment must be the
        item's last segment, every earlier segment must occur in the item's path"""
        if name in self.items:
            return name
        segs = name.split("::")
        for cands in (
            [k for k in self.items if name.endswith("::" + k)],
            [k for k in self.items if k.endswith("::" + name)],
            [k for k in self.items if k.split("::")[-1] == segs[-1] and all(sg in k for sg in segs[:-1])],
        ):
            if len(cands) == 1:
                return cands[0]
            if len(cands) > 1:
                best = sorted(cands, key=len)
                if name.endswith("::" + best[-1]):
                    return best[-1]
        raise Unsupported("cannot resolve item %r (candidates %s)" % (name, cands[:5]))

    def const_value(self, path):
        if path in self.const_cache:
            return self.const_cache[path]
        key = self.find(path)
        # the compiler has already evaluated every const successfully, so the overflow-assert
        # failure paths of its MIR body are dead: keep the single value path
        res = [r for r in self.run(key, []) if r[1] != "PANIC"]
        if len(res) != 1:
            raise Unsupported("const %s does not evaluate to one value" % path)
        self.const_cache[path] = res[0][1]
        return res[0][1]

    # -- operands / places
    def place(self, env, p):
        p = p.strip()
        m = re.match(r"^_\d+$", p)
        if m:
            if p not in env:
                raise Unsupported("use of unset local " + p)
            return env[p]
        m = re.match(r"^\(\(\*(_\d+)\)\.(\d+): (.+)\)$", p) or re.match(r"^\((_\d+)\.(\d+): (.+)\)$", p)
        if m:
            base = env[m.group(1)]
            idx = int(m.group(2))
            if base[0] == "tuple":
                return base[1][idx]
            if base[0] == "ref":
                d = base[1]
                if idx not in d:
                    w = width_of(m.group(3))
                    if w is None:
                        raise Unsupported("field of type " + m.group(3))
                    d[idx] = self.sym("field%d" % idx, w)
                return d[idx]
            raise Unsupported("projection on " + str(base[0]))
        m = re.match(r"^\(\*(_\d+)\)$", p)
        if m:
            return env[m.group(1)]
        raise Unsupported("place " + p)

    def operand(self, env, o):
        o = o.strip()
        if o.startswith("copy ") or o.startswith("move "):
            return self.place(env, o[5:])
        if o.startswith("const "):
            c = o[6:].strip()
            if c in ("true", "false"):
                return ("bool", c)
            m = re.match(r"^(-?\d+)_(\w+)$", c)
            if m:
                w = width_of(m.group(2))
                return ("bv", bvconst(int(m.group(1)), w), w)
            if c.startswith('"'):
                return ("unit",)
            return self.const_value(c)
        raise Unsupported("operand " + o)

    def binop(self, op, a, b):
        if a[0] == "bool" and b[0] == "bool":
            t = {"Eq": "(= %s %s)", "Ne": "(not (= %s %s))", "BitAnd": "(and %s %s)", "BitOr": "(or %s %s)"}.get(op)
            if t is None:
                raise Unsupported("bool binop " + op)
            return ("bool", t % (a[1], b[1]))
        if a[0] != "bv" or b[0] != "bv":
            raise Unsupported("binop on " + a[0])
        w = a[2]
        x, y = a[1], b[1]
        if op in ("Shl", "Shr") and b[2] != w:
            y = "((_ zero_extend %d) %s)" % (w - b[2], y) if b[2] < w else "((_ extract %d 0) %s)" % (w - 1, y)
        cmpt = {"Eq": "(= %s %s)", "Ne": "(not (= %s %s))", "Gt": "(bvugt %s %s)", "Ge": "(bvuge %s %s)",
                "Lt": "(bvult %s %s)", "Le": "(bvule %s %s)"}
        if op in cmpt:
            return ("bool", cmpt[op] % (x, y))
        ar = {"BitAnd": "bvand", "BitOr": "bvor", "BitXor": "bvxor", "Add": "bvadd", "Sub": "bvsub", "Shl": "bvshl",
              "Shr": "bvlshr", "AddUnchecked": "bvadd", "SubUnchecked": "bvsub", "Mul": "bvmul"}
        if op in ar:
            return ("bv", "(%s %s %s)" % (ar[op], x, y), w)
        if op == "SubWithOverflow":
            return ("tuple", [("bv", "(bvsub %s %s)" % (x, y), w), ("bool", "(bvult %s %s)" % (x, y))])
        if op == "AddWithOverflow":
            return ("tuple", [("bv", "(bvadd %s %s)" % (x, y), w), ("bool", "(bvult (bvadd %s %s) %s)" % (x, y, x))])
        raise Unsupported("binop " + op)

    def call(self, fn, args):
        f = fn.strip()
        if re.search(r"::wrapping_sub$", f):
            return [("true", ("bv", "(bvsub %s %s)" % (args[0][1], args[1][1]), args[0][2]))]
        if re.search(r"::wrapping_add$", f):
            return [("true", ("bv", "(bvadd %s %s)" % (args[0][1], args[1][1]), args[0][2]))]
        if re.search(r"::is_power_of_two$", f):
            a, w = args[0][1], args[0][2]
            return [("true", ("bool", "(and (not (= %s %s)) (= (bvand %s (bvsub %s %s)) %s))" % (
                a, bvconst(0, w), a, a, bvconst(1, w), bvconst(0, w))))]
        if re.search(r"::next_power_of_two$", f):
            # smallest power of two >= a (a <= 1 -> 1); with overflow checks on, a result that does not
            # fit panics
            a, w = args[0][1], args[0][2]
            x = "(bvsub %s %s)" % (a, bvconst(1, w))
            for sh in (1, 2, 4, 8, 16, 32):
                if sh < w:
                    x = "(bvor %s (bvlshr %s %s))" % (x, x, bvconst(sh, w))
            res = "(ite (bvule %s %s) %s (bvadd %s %s))" % (a, bvconst(1, w), bvconst(1, w), x, bvconst(1, w))
            overflow = "(bvugt %s %s)" % (a, bvconst(1 << (w - 1), w))
            return [("(not %s)" % overflow, ("bv", res, w)), (overflow, "PANIC")]
        if re.search(r"Atomic.*::load$|AtomicUsize::load$", f):
            ref = args[0]
            if ref[0] != "ref":
                raise Unsupported("atomic load of non-ref")
            if "val" not in ref[1]:
                ref[1]["val"] = self.sym("atomic")
            return [("true", ref[1]["val"])]
        if re.search(r"begin_panic|panic_fmt|core::panicking", f):
            return [("true", "PANIC")]
        key = self.find(re.sub(r"<.*?>::", "", f) if f not in self.items else f)
        return self.run(key, args)

    # -- run one function: list of (path condition term, value | "PANIC")
    def run(self, name, args):
        it = self.items[name]
        env0 = {}
        for (var, ty), a in zip(it["params"], args):
            env0[var] = a
        results = []

        def go(bb, env, pc, depth):
            if depth > 64:
                raise Unsupported("path too long / loop in " + name)
            for st in it["blocks"][bb]:
                st = st.rstrip(";")
                if st.startswith(("StorageLive", "StorageDead", "nop", "FakeRead", "PlaceMention", "Retag", "AscribeUserType")) or st.startswith("//"):
                    continue
                if st == "return":
                    results.append((pc, env.get("_0", ("unit",))))
                    return
                m = re.match(r"^goto -> (bb\d+)$", st)
                if m:
                    return go(m.group(1), env, pc, depth + 1)
                m = re.match(r"^switchInt\((.+?)\) -> \[(.+)\]$", st)
                if m:
                    v = self.operand(env, m.group(1))
                    arms = [a.strip() for a in m.group(2).split(",")]
                    taken = []
                    for a in arms:
                        k, tgt = [x.strip() for x in a.split(":")]
                        if k == "otherwise":
                            cond = "(and true %s)" % " ".join("(not %s)" % t for t in taken) if taken else "true"
                        else:
                            if v[0] == "bool":
                                cond = v[1] if k == "1" else "(not %s)" % v[1]
                            else:
                                cond = "(= %s %s)" % (v[1], bvconst(int(k), v[2]))
                            taken.append(cond)
                        go(tgt, dict(env), "(and %s %s)" % (pc, cond), depth + 1)
                    return
                m = re.match(r"^assert\((!?)(.+?), .*\) -> \[success: (bb\d+), unwind.*\]$", st)
                if m:
                    v = self.operand(env, m.group(2))
                    ok = "(not %s)" % v[1] if m.group(1) else v[1]
                    results.append(("(and %s (not %s))" % (pc, ok), "PANIC"))
                    return go(m.group(3), env, "(and %s %s)" % (pc, ok), depth + 1)
                m = re.match(r"^(_\d+) = (.+?)\((.*)\) -> (\[return: (bb\d+), unwind.*\]|unwind.*)$", st)
                if m and not re.match(r"^(copy|move|const) ", m.group(2)) and re.match(r"^[A-Za-z_<]", m.group(2)) and not re.match(r"^(BitAnd|BitOr|BitXor|Eq|Ne|Gt|Ge|Lt|Le|Add|Sub|Shl|Shr|Mul|SubWithOverflow|AddWithOverflow|AddUnchecked|SubUnchecked)$", m.group(2)):
                    dst, fn, argtxt, _, nxt = m.group(1), m.group(2), m.group(3), m.group(4), m.group(5)
                    a = [self.operand(env, x) for x in split_top(argtxt)] if argtxt.strip() else []
                    outs = self.call(fn, a)
                    for (c, val) in outs:
                        npc = "(and %s %s)" % (pc, c)
                        if val == "PANIC" or nxt is None:
                            results.append((npc, "PANIC"))
                        else:
                            e2 = dict(env)
                            e2[dst] = val
                            go(nxt, e2, npc, depth + 1)
                    return
                m = re.match(r"^(_\d+) = (.+)$", st)
                if m:
                    dst, rhs = m.group(1), m.group(2).strip()
                    env[dst] = self.rvalue(env, rhs)
                    continue
                raise Unsupported("statement: " + st)
            raise Unsupported("block without terminator in " + name)

        go("bb0", env0, "true", 0)
        return results

    def rvalue(self, env, rhs):
        m = re.match(r"^(\w+)\((.+)\)$", rhs)
        if m and m.group(1) in ("BitAnd", "BitOr", "BitXor", "Eq", "Ne", "Gt", "Ge", "Lt", "Le", "Add", "Sub", "Shl", "Shr", "Mul",
                                "SubWithOverflow", "AddWithOverflow", "AddUnchecked", "SubUnchecked"):
            a, b = split_top(m.group(2))
            return self.binop(m.group(1), self.operand(env, a), self.operand(env, b))
        m = re.match(r"^Not\((.+)\)$", rhs)
        if m:
            v = self.operand(env, m.group(1))
            return ("bool", "(not %s)" % v[1]) if v[0] == "bool" else ("bv", "(bvnot %s)" % v[1], v[2])
        m = re.match(r"^(.+) as (\w+) \(IntToInt\)$", rhs)
        if m:
            v = self.operand(env, m.group(1))
            w = width_of(m.group(2))
            if v[2] == w:
                return ("bv", v[1], w)
            if v[2] < w:
                return ("bv", "((_ zero_extend %d) %s)" % (w - v[2], v[1]), w)
            return ("bv", "((_ extract %d 0) %s)" % (w - 1, v[1]), w)
        m = re.match(r"^\((.*)\)$", rhs)
        if m and not rhs.startswith("((*") and not re.match(r"^\(_\d+\.\d+:", rhs):
            parts = split_top(m.group(1))
            if len(parts) >= 2 or rhs.endswith(",)"):
                return ("tuple", [self.operand(env, p) for p in parts if p.strip()])
        if re.match(r"^std::sync::atomic::Ordering::\w+$", rhs) or rhs.startswith("&") or rhs.startswith("Ordering::"):
            return ("unit",)
        return self.operand(env, rhs)


def merge(results):
    """(value term as nested ite over non-panicking paths, panic condition)"""
    panic = "(or false %s)" % " ".join(pc for (pc, v) in results if v == "PANIC")
    vals = [(pc, v) for (pc, v) in results if v != "PANIC"]
    if not vals:
        raise Unsupported("all paths panic")

    def comb(getter):
        t = getter(vals[-1][1])
        for (pc, v) in reversed(vals[:-1]):
            t = "(ite %s %s %s)" % (pc, getter(v), t)
        return t
    v0 = vals[0][1]
    if v0[0] == "tuple":
        return [comb(lambda v, k=k: v[1][k][1]) for k in range(len(v0[1]))], panic
    if v0[0] == "unit":
        return [], panic
    return [comb(lambda v: v[1])], panic


# ---------------------------------------------------------------------------------------------
# lemmas

B = lambda v: bvconst(v, 64)
M63 = (1 << 63) - 1


def pow2(n):
    return "(and (not (= {n} {z})) (= (bvand {n} (bvsub {n} {o})) {z}))".format(n=n, z=B(0), o=B(1))


def build_lemmas(ex):
    """each: dict(id, serves, fn, statement, smt (list of asserts incl. negated claim), vars, replay)"""
    L = []

    def summary(fn, args):
        return merge(ex.run(ex.find(fn), args))

    # L1 capacity normalisation
    v = ex.sym("v")
    (r,), panic = summary("get_valid_wrap", [v])
    (), vpanic = summary("validate_wrap", [("bv", r, 64)])
    mx = "(ite (= {v} {z}) {o} {v})".format(v=v[1], z=B(0), o=B(1))
    claim = "(and (not {p}) {pw} (bvuge {r} {mx}) (bvult {r} (bvshl {mx} {o})) (not {vp}))".format(
        p=panic, pw=pow2(r), r=r, mx=mx, o=B(1), vp=vpanic)
    L.append(dict(id="L1", serves=["C03", "C09"], fns=["get_valid_wrap", "validate_wrap"],
                  statement="for every requested capacity v <= 2^61: get_valid_wrap(v) is a power of two, >= max(v,1), < 2*max(v,1), and validate_wrap accepts it",
                  pre=["(bvule %s %s)" % (v[1], B(1 << 61))], claim=claim, vars=[("v", v[1])], replay=("get_valid_wrap", ["v"])))

    # L2 exactly-full test
    h, t, n = ex.sym("h"), ex.sym("t"), ex.sym("n")
    tr = ("ref", {1: h, 2: ("bv", "(bvsub %s %s)" % (n[1], B(1)), 64)})
    (mp,), p2 = summary("countedindex::matches_previous", [tr, t])
    d63 = "(bvand (bvsub %s %s) %s)" % (h[1], t[1], B(M63))
    pre = ["(bvule %s %s)" % (h[1], B(M63)), "(bvule %s %s)" % (t[1], B(M63)), pow2(n[1]), "(bvule %s %s)" % (n[1], B(1 << 61)),
           "(bvule %s %s)" % (d63, n[1])]
    L.append(dict(id="L2", serves=["C03"], fns=["Transaction::matches_previous", "rm_tag"],
                  statement="for 63-bit head h, tail t and N = 2^k <= 2^61 with (h-t) mod 2^63 <= N: matches_previous(t) <=> (h-t) mod 2^63 == N (including across the 2^63 wrap)",
                  pre=pre, claim="(and (not %s) (= %s (= %s %s)))" % (p2, mp, d63, n[1]),
                  vars=[("h", h[1]), ("t", t[1]), ("n", n[1])], replay=("matches_previous", ["h", "n", "t"])))

    # L3 slot index
    c, n3 = ex.sym("count"), ex.sym("n")
    tr3 = ("ref", {1: c, 2: ("bv", "(bvsub %s %s)" % (n3[1], B(1)), 64)})
    (idx, tag), p3 = summary("countedindex::get", [tr3])
    L.append(dict(id="L3", serves=["C03", "C01"], fns=["Transaction::get"],
                  statement="for N = 2^k <= 2^61: Transaction::get() yields slot index count mod N (< N) and the count itself as the expected tag",
                  pre=[pow2(n3[1]), "(bvule %s %s)" % (n3[1], B(1 << 61))],
                  claim="(and (not %s) (bvult %s %s) (= %s (bvurem %s %s)) (= %s %s))" % (p3, idx, n3[1], idx, c[1], n3[1], tag, c[1]),
                  vars=[("count", c[1]), ("n", n3[1])], replay=("get", ["count", "n"])))

    # L4 distance writer - reader (known to fail across the 2^63 wrap, see DESIGN.md section 7)
    w, r4, n4 = ex.sym("w"), ex.sym("r"), ex.sym("n")
    (diff, tofar), p4 = summary("past", [w, r4])
    d63 = "(bvand (bvsub %s %s) %s)" % (w[1], r4[1], B(M63))
    pre4 = ["(bvule %s %s)" % (w[1], B(M63)), "(bvule %s %s)" % (r4[1], B(M63)), pow2(n4[1]), "(bvule %s %s)" % (n4[1], B(1 << 61)),
            "(bvule %s %s)" % (d63, n4[1])]
    claim4 = "(and (not %s) (= %s %s) (not %s))" % (p4, diff, d63, tofar)
    L.append(dict(id="L4", serves=["C03", "C06"], fns=["past"],
                  statement="for 63-bit writer count w and reader position r with (w-r) mod 2^63 <= N, and w >= r (fewer than 2^63 values sent so far): past(w,r) = (w-r, false)",
                  pre=pre4 + ["(bvuge %s %s)" % (w[1], r4[1])], claim=claim4,
                  vars=[("w", w[1]), ("r", r4[1]), ("n", n4[1])], replay=("past", ["w", "r"])))
    L.append(dict(id="L4w", serves=[], fns=["past"], expected_sat=True,
                  statement="the same WITHOUT w >= r, i.e. across the 2^63 counter wrap (expected to fail: SIDE-FINDING, DESIGN.md section 7)",
                  pre=pre4, claim=claim4, vars=[("w", w[1]), ("r", r4[1]), ("n", n4[1])], replay=("past", ["w", "r"])))

    # L5 wait condition
    seq = ex.sym("seq")
    at = ("ref", {})
    wc = ("ref", {})
    (chk,), p5 = summary("wait::check", [seq, at, wc])
    atv, wcv = at[1]["val"][1], wc[1]["val"][1]
    cur = "(bvand %s %s)" % (atv, B(M63))
    ahead = "(bvsub %s %s)" % (cur, seq[1])
    L.append(dict(id="L5", serves=["C08", "C14"], fns=["wait::check", "load_tagless", "past", "rm_tag"],
                  statement="check(seq, at, wc) is true whenever the slot tag equals seq, or no writer is left, or the slot is already 1..2^62-1 laps/positions ahead of seq (a sibling consumed and the ring wrapped)",
                  pre=["(bvule %s %s)" % (seq[1], B(M63)),
                       "(or (= %s %s) (= %s %s) (and (bvuge %s %s) (bvule %s %s)))" % (cur, seq[1], wcv, B(0), ahead, B(1), ahead, B((1 << 62) - 1))],
                  claim="(and (not %s) %s)" % (p5, chk),
                  vars=[("seq", seq[1]), ("at", atv), ("wc", wcv)], replay=("check", ["seq", "at", "wc"])))
    L.append(dict(id="L5n", serves=["C08"], fns=["wait::check"],
                  statement="check(seq, at, wc) is false when a writer is alive, the tag differs from seq and the slot is not ahead of seq (waiter must keep waiting: tag is 1..2^62 behind)",
                  pre=["(bvule %s %s)" % (seq[1], B(M63)), "(not (= %s %s))" % (wcv, B(0)),
                       "(bvuge (bvsub %s %s) %s)" % (seq[1], cur, B(1)), "(bvule (bvsub %s %s) %s)" % (seq[1], cur, B((1 << 62) - 1)),
                       "(bvuge %s %s)" % (seq[1], cur)],
                  claim="(and (not %s) (not %s))" % (p5, chk),
                  vars=[("seq", seq[1]), ("at", atv), ("wc", wcv)], replay=("check", ["seq", "at", "wc"])))

    # L6 tag helpers
    x = ex.sym("x")
    (rt,), p6 = summary("rm_tag", [x])
    (tg,), p6b = summary("is_tagged", [x])
    L.append(dict(id="L6", serves=["C01", "C03"], fns=["rm_tag", "is_tagged"],
                  statement="rm_tag clears exactly bit 63, is_tagged tests exactly bit 63 (the initial slot flag usize::MAX is tagged and never equals a 63-bit count)",
                  pre=[], claim="(and (not %s) (not %s) (= %s (bvand %s %s)) (= %s (not (= (bvand %s %s) %s))))" % (
                      p6, p6b, rt, x[1], B(M63), tg, x[1], B(1 << 63), B(0)),
                  vars=[("x", x[1])], replay=("rm_tag", ["x"])))

    # L7 tail recomputation composes with the full test
    cnt, dd, n7 = ex.sym("count"), ex.sym("d"), ex.sym("n")
    (prev,), p7 = summary("countedindex::get_previous", [cnt, dd])
    tr7 = ("ref", {1: cnt, 2: ("bv", "(bvsub %s %s)" % (n7[1], B(1)), 64)})
    (mp7,), p7b = summary("countedindex::matches_previous", [tr7, ("bv", prev, 64)])
    L.append(dict(id="L7", serves=["C03", "C06"], fns=["CountedIndex::get_previous", "Transaction::matches_previous"],
                  statement="for 63-bit count >= d, d <= N = 2^k <= 2^61: the recomputed tail get_previous(count, d) makes the writer see Full exactly when d == N",
                  pre=["(bvule %s %s)" % (cnt[1], B(M63)), pow2(n7[1]), "(bvule %s %s)" % (n7[1], B(1 << 61)),
                       "(bvule %s %s)" % (dd[1], n7[1]), "(bvuge %s %s)" % (cnt[1], dd[1])],
                  claim="(and (not %s) (not %s) (= %s (= %s %s)))" % (p7, p7b, mp7, dd[1], n7[1]),
                  vars=[("count", cnt[1]), ("d", dd[1]), ("n", n7[1])], replay=("prev_matches", ["count", "d", "n"])))
    return L


def build_kernels(ex):
    """Function summaries used for translator validation and for replaying counterexamples:
    name -> dict(ins=[smt input terms], outs=[smt output terms], panic=term)"""
    K = {}

    def summary(fn, args):
        return merge(ex.run(ex.find(fn), args))

    v = ex.sym("kv")
    (r,), p = summary("get_valid_wrap", [v])
    K["get_valid_wrap"] = dict(ins=[v[1]], outs=[r], panic=p)
    a, b = ex.sym("ka"), ex.sym("kb")
    (d, t), p = summary("past", [a, b])
    K["past"] = dict(ins=[a[1], b[1]], outs=[d, "(ite %s %s %s)" % (t, B(1), B(0))], panic=p)
    x = ex.sym("kx")
    (rt,), p = summary("rm_tag", [x])
    (tg,), p2 = summary("is_tagged", [x])
    K["rm_tag"] = dict(ins=[x[1]], outs=[rt, "(ite %s %s %s)" % (tg, B(1), B(0))], panic="(or %s %s)" % (p, p2))
    h, n, tt = ex.sym("kh"), ex.sym("kn"), ex.sym("kt")
    tr = ("ref", {1: h, 2: ("bv", "(bvsub %s %s)" % (n[1], B(1)), 64)})
    (mp,), p = summary("countedindex::matches_previous", [tr, tt])
    K["matches_previous"] = dict(ins=[h[1], n[1], tt[1]], outs=["(ite %s %s %s)" % (mp, B(1), B(0))], panic=p, pow2_arg=1)
    c, n3 = ex.sym("kc"), ex.sym("kn3")
    tr3 = ("ref", {1: c, 2: ("bv", "(bvsub %s %s)" % (n3[1], B(1)), 64)})
    (idx, tag), p = summary("countedindex::get", [tr3])
    K["get"] = dict(ins=[c[1], n3[1]], outs=[idx, tag], panic=p, pow2_arg=1)
    cnt, dd, n7 = ex.sym("kcnt"), ex.sym("kd"), ex.sym("kn7")
    (prev,), p = summary("countedindex::get_previous", [cnt, dd])
    tr7 = ("ref", {1: cnt, 2: ("bv", "(bvsub %s %s)" % (n7[1], B(1)), 64)})
    (mp7,), p2 = summary("countedindex::matches_previous", [tr7, ("bv", prev, 64)])
    K["prev_matches"] = dict(ins=[cnt[1], dd[1], n7[1]], outs=[prev, "(ite %s %s %s)" % (mp7, B(1), B(0))], panic="(or %s %s)" % (p, p2), pow2_arg=2)
    seq = ex.sym("kseq")
    at, wc = ("ref", {}), ("ref", {})
    (chk,), p = summary("wait::check", [seq, at, wc])
    K["check"] = dict(ins=[seq[1], at[1]["val"][1], wc[1]["val"][1]], outs=["(ite %s %s %s)" % (chk, B(1), B(0))], panic=p)
    return K


def eval_encoding(ex, kern, tuples, timeout=120):
    """evaluate the SMT encoding of one kernel on concrete input tuples (one z3 process)"""
    s = ["(set-logic ALL)", "(set-option :produce-models true)"] + ex.decls
    for tup in tuples:
        s.append("(push 1)")
        for term, val in zip(kern["ins"], tup):
            s.append("(assert (= %s %s))" % (term, B(val)))
        s.append("(check-sat)")
        s.append("(get-value (%s (ite %s %s %s)))" % (" ".join(kern["outs"]), kern["panic"], B(1), B(0)))
        s.append("(pop 1)")
    p = subprocess.run(["z3", "-in", "-T:%d" % timeout], input="\n".join(s) + "\n", stdout=subprocess.PIPE,
                       stderr=subprocess.STDOUT, text=True, timeout=timeout + 20)
    if "(error" in p.stdout:
        return None
    chunks = re.split(r"^sat$", p.stdout, flags=re.M)[1:]
    res = []
    for ch in chunks:
        vals = [int(x[2:], 16) for x in re.findall(r"#x[0-9a-fA-F]{16}", ch)]
        # get-value echoes each term before its value only for non-literal terms; take the last len(outs)+1 values
        k = len(kern["outs"]) + 1
        res.append(vals[-k:] if len(vals) >= k else None)
    return res


def eval_native(binary, name, tup):
    p = subprocess.run([binary, "--e2", name] + [str(x) for x in tup], stdout=subprocess.PIPE, stderr=subprocess.DEVNULL, text=True, timeout=30)
    m = re.search(r"^E2 (.*)$", p.stdout, flags=re.M)
    if not m:
        return None
    if m.group(1).strip() == "PANIC":
        return "PANIC"
    return [int(x) for x in m.group(1).split()]


def validate_translator(ex, K, binary, seed, per_kernel=40):
    """push boundary and random inputs through both the real functions (native) and the encoding"""
    import random
    rnd = random.Random(1000 + seed)
    edge = [0, 1, 2, 3, 4, 7, 8, (1 << 61), (1 << 62) - 1, (1 << 62), (1 << 62) + 1, (1 << 63) - 1, (1 << 63), (1 << 63) + 1, (1 << 64) - 1]
    checked = 0
    mismatches = []
    for name, kern in K.items():
        tuples = []
        arity = len(kern["ins"])
        for _ in range(per_kernel):
            tup = []
            for j in range(arity):
                if kern.get("pow2_arg") == j:
                    tup.append(1 << rnd.randrange(0, 62))
                elif rnd.random() < 0.5:
                    tup.append(rnd.choice(edge))
                else:
                    tup.append(rnd.getrandbits(rnd.choice([3, 16, 62, 63, 64])))
            tuples.append(tuple(tup))
        enc = eval_encoding(ex, kern, tuples)
        if enc is None:
            mismatches.append((name, "encoding could not be evaluated"))
            continue
        for tup, e in zip(tuples, enc):
            nat = eval_native(binary, name, tup)
            checked += 1
            if e is None or nat is None:
                mismatches.append((name, tup, e, nat))
            elif nat == "PANIC":
                if e[-1] != 1:
                    mismatches.append((name, tup, e, nat))
            elif e[-1] == 1 or e[:-1] != nat:
                mismatches.append((name, tup, e, nat))
    return checked, mismatches


def script_for(ex, lem):
    s = ["(set-logic ALL)", "(set-option :produce-models true)"] + ex.decls
    for p in lem["pre"]:
        s.append("(assert %s)" % p)
    s.append("(assert (not %s))" % lem["claim"])
    s.append("(check-sat)")
    s.append("(get-value (%s))" % " ".join(t for (_n, t) in lem["vars"]))
    return "\n".join(s) + "\n"


def solve(script, solver, timeout):
    cmd = {"z3": ["z3", "-in", "-T:%d" % timeout], "cvc5": ["cvc5", "--lang", "smt2", "--produce-models", "--tlimit=%d" % (timeout * 1000)]}[solver]
    t0 = time.time()
    try:
        p = subprocess.run(cmd, input=script, stdout=subprocess.PIPE, stderr=subprocess.STDOUT, text=True, timeout=timeout + 10)
        out = p.stdout
    except subprocess.TimeoutExpired:
        return "timeout", {}, time.time() - t0
    dt = time.time() - t0
    first = out.strip().splitlines()[0] if out.strip() else ""
    if "(error" in out and first not in ("unsat",):
        # an error after 'unsat' can only be the get-value on an unsat problem
        if first != "sat":
            return "error", {"raw": out[:500]}, dt
    if first == "unsat":
        return "unsat", {}, dt
    if first == "sat":
        model = {}
        for m in re.finditer(r"\((\S+) (#x[0-9a-fA-F]+|#b[01]+|\(_ bv(\d+) \d+\))\)", out):
            val = m.group(2)
            if val.startswith("#x"):
                v = int(val[2:], 16)
            elif val.startswith("#b"):
                v = int(val[2:], 2)
            else:
                v = int(m.group(3))
            model[m.group(1)] = v
        return "sat", model, dt
    return "unknown", {"raw": out[:300]}, dt


def run_lemmas(build_dir, want_props, timeout=60, binary=None, seed=0):
    """-> (results list, info). Each result: dict(id, verdicts, model, ...)."""
    mir = dump_mir(build_dir)
    items = parse_mir(mir)
    ex = Exec(items)
    info = dict(validated=0, mismatches=[])
    try:
        lemmas = build_lemmas(ex)
        kernels = build_kernels(ex)
    except Unsupported as e:
        return [dict(id="encoder", status="inconclusive", detail="MIR construct outside the encoder: %s" % e, serves=list(want_props or []))], info
    if binary:
        info["validated"], info["mismatches"] = validate_translator(ex, kernels, binary, seed)
    out = []
    for lem in lemmas:
        if want_props is not None and not (set(lem["serves"]) & set(want_props)) and not lem.get("expected_sat"):
            continue
        if lem.get("expected_sat") and want_props is not None and not ({"C03", "C06"} & set(want_props)):
            continue
        sc = script_for(ex, lem)
        v = {}
        model = {}
        tsum = 0.0
        for s in ("z3", "cvc5"):
            verdict, m, dt = solve(sc, s, timeout)
            v[s] = verdict
            tsum += dt
            if verdict == "sat" and not model:
                model = m
        named = {n: model.get(t) for (n, t) in lem["vars"] if t in model}
        if v["z3"] == "unsat" and v["cvc5"] == "unsat":
            status = "holds"
        elif "sat" in v.values() and not ({"error"} & set(v.values())) and set(v.values()) <= {"sat", "timeout", "unknown"}:
            status = "fails"
        else:
            status = "inconclusive"
        # vacuity: the precondition together with the claim must be satisfiable
        vac_script = "\n".join(["(set-logic ALL)"] + ex.decls + ["(assert %s)" % p for p in lem["pre"]] + ["(assert %s)" % lem["claim"], "(check-sat)"]) + "\n"
        vac, _, _ = solve(vac_script, "z3", timeout)
        rec = dict(id=lem["id"], serves=lem["serves"], functions=lem["fns"], statement=lem["statement"], verdicts=v,
                   status=status, model=named, solver_s=round(tsum, 3), expected_sat=lem.get("expected_sat", False),
                   precondition_satisfiable=(vac == "sat"))
        if vac != "sat" and status == "holds":
            rec["status"] = "inconclusive"
            rec["detail"] = "vacuous: precondition and claim are not jointly satisfiable"
        # replay a counterexample on the real function: the native result must be what the encoding says
        if status == "fails" and binary and lem["replay"][0] in kernels:
            kname, argn = lem["replay"]
            tup = tuple(named.get(a, 0) for a in argn)
            enc = eval_encoding(ex, kernels[kname], [tup])
            nat = eval_native(binary, kname, tup)
            rec["replay"] = dict(function=kname, args=list(tup), native=nat, encoding=enc[0] if enc else None)
            if not enc or nat is None or (nat != "PANIC" and enc[0][:-1] != nat):
                rec["status"] = "inconclusive"
                rec["detail"] = "counterexample does not reproduce on the real function"
        out.append(rec)
    info["functions"] = sorted(set(f for l in lemmas for f in l["fns"]))
    return out, info


if __name__ == "__main__":
    bd = os.path.join(VERIF, ".build", "e2-dev")
    try:
        sys.path.insert(0, os.path.dirname(os.path.abspath(__file__)))
        import mqv
        binary = mqv.build_replay(bd, {}, "debug")
        res, info = run_lemmas(bd, None, binary=binary)
        print(info)
        for r in res:
            print(r["id"], r["status"], r.get("verdicts"), r.get("model"), r.get("detail", ""), r.get("replay", ""))
    finally:
        shutil.rmtree(bd, ignore_errors=True)
