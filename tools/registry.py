"""Harness registry: which harness serves which property, in which tier, with which loop bounds.

Loop-bound rules are (regex over "function @ file:line", bound); first match wins; loops that
match no rule get the harness's default `unwind`.  Unwinding assertions are always on, so a bound
that is too small fails the run (it never silently truncates it)."""
import os
import re

# loops of the harness crate itself have concrete trip counts (<= MAXREC = 28)
HARNESS_LOOPS = (r" @ src/", 46)


def queue_rules(retry=3, streams=2, ring=3, extra=None):
    return (extra or []) + [
        (r'try_send_multi', retry),
        (r'MultiQueue.*::try_recv', retry),
        (r'ReadCursor::get_max_diff', retry),
        (r'ReaderGroup::get_max_diff', streams + 1),
        (r'new_internal', ring),
        (r'MultiQueue.* as std::ops::Drop>::drop', ring + 1),
        (r'point_impl', 3),
        HARNESS_LOOPS,
    ]


DEFAULT = dict(unwind=4, rules=queue_rules(), mem_gb=16, timeout=900)

ASSUMPTIONS = [
    "sequential consistency: the cfg(multiqueue2_verif) shim atomics ignore Ordering arguments and fences are no-ops",
    "schedule class S(d,b) of DESIGN.md section 4: suspended operations resume in LIFO order; at most b operations start at preemption points",
    "MemoryManager::{get_token,remove_token,update_token,free} and ToFree::delete replaced by never-reclaiming ledger stubs in whole-queue harnesses (kani -Z stubbing); native replay runs the real ones",
    "futures 0.1 replaced by the environment stub /verif/stubs/futures01 (task layer = harness executor)",
    "std::sync::Mutex / parking_lot Mutex+Condvar replaced by single-thread-of-control shims",
    "loop bounds as listed per harness; unwinding assertions on (a bound that is too small fails the run)",
    "Kani/CBMC soundness; cbmc run with --max-field-sensitivity-array-size 2048 and Kani's default flag set",
]

# name -> dict(mod=<rust module>, props=[...], primary=<id>, tier='quick'|'thorough', what=..., bounds=..., + config overrides)
HARNESSES = {}

E2_ONLY = set()


def H(name, mod, primary, props, tier, what, bounds="", **cfg):
    d = dict(mod=mod, primary=primary, props=props, tier=tier, what=what, bounds=bounds)
    d.update(cfg)
    HARNESSES[name] = d


def full_path(name):
    h = HARNESSES.get(name)
    return "%s::%s" % (h["mod"], name) if h else name


def primary_of(name):
    return HARNESSES[name]["primary"]


def props_of(name):
    return HARNESSES[name]["props"]


def select(prop, tier):
    """quick: harnesses whose primary property is `prop` and that are tagged quick.
    thorough: every harness that serves `prop` (primary or not), both tags."""
    out = []
    for n, h in HARNESSES.items():
        if tier == "quick":
            if h["primary"] == prop and h["tier"] == "quick":
                out.append(n)
        else:
            if prop in h["props"]:
                out.append(n)
    return out


def config_for(name, tier="quick"):
    cfg = dict(DEFAULT)
    h = HARNESSES.get(name, {})
    for k in ("unwind", "rules", "mem_gb", "timeout", "fp_restrict", "remove_bodies", "cbmc_extra"):
        if k in h:
            cfg[k] = h[k]
    if tier == "thorough":
        cfg["timeout"] = max(cfg["timeout"], h.get("timeout_thorough", 3600))
    return cfg


def default_jobs(tier):
    n = os.cpu_count() or 4
    return max(1, min(8, n // 2))


def needs_native_confirmation(name, desc):
    """Memory-safety verdicts of CBMC's pointer checks (use after free, double free, out of bounds)
    are not observable in a native run; for harnesses whose oracle they are (C16) they are reported
    without native confirmation."""
    h = HARNESSES.get(name, {})
    if h.get("builtin_oracle") and not re.match(r"^C\d\d", desc):
        return False
    return True


# ---------------------------------------------------------------------------------------------
# harness table

H("h_s1_mpmc_n2_o2_111", "scen_basic", "C01", ["C01", "C02", "C03", "C06"], "quick",
  "mpmc, multi-writer: consumer try_recv preempted at every shared access by two producers' try_send",
  "N=2, 1 op per actor, depth 1, budget 2")
H("h_s1_mpmc_n2_o0_111", "scen_basic", "C01", ["C01", "C02", "C03", "C06"], "thorough",
  "mpmc, multi-writer: producer try_send preempted at every shared access by the other producer's try_send and the consumer's try_recv",
  "N=2, 1 op per actor, depth 1, budget 2")
H("h_s1_mpmc_n2_o0_111_b1", "scen_basic", "C01", ["C01", "C02", "C03", "C06"], "quick",
  "mpmc, multi-writer: producer try_send preempted once by the other producer's try_send or the consumer's try_recv",
  "N=2, 1 op per actor, depth 1, budget 1")
