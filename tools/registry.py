"""Harness registry: which harness serves which property, in which tier, with which loop bounds.

Loop-bound rules are (regex over "function @ file:line", bound); first match wins; loops that
match no rule get the harness's default `unwind`.  Unwinding assertions are always on, so a bound
that is too small fails the run (it never silently truncates it)."""
import re

# loops of the harness crate itself have concrete trip counts (<= MAXREC = 28)
HARNESS_LOOPS = (r' @ src/', 30)


def queue_rules(retry=3, streams=2, ring=3):
    return [
        (r'try_send_multi', retry),
        (r'MultiQueue.*::try_recv', retry),
        (r'ReadCursor::get_max_diff', retry),
        (r'ReaderGroup::get_max_diff', streams + 1),
        (r'new_internal', ring),
        (r'MultiQueue.* as std::ops::Drop>::drop', ring + 1),
        (r'point_impl', 3),
        HARNESS_LOOPS,
    ]


DEFAULT = dict(unwind=4, rules=queue_rules(), mem_gb=16, timeout=900)

HARNESSES = {}


def config_for(name):
    cfg = dict(DEFAULT)
    cfg.update(HARNESSES.get(name, {}))
    return cfg
