"""Harness registry: which harness serves which property, in which tier, with which loop bounds.

Loop-bound rules are (regex over "function @ file:line", bound); first match wins; loops that
match no rule get the harness's default `unwind`.  Unwinding assertions are always on, so a bound
that is too small fails the run (it never silently truncates it)."""
import os
import re

# loops of the harness crate itself have concrete trip counts (<= MAXREC = 28)
HARNESS_LOOPS = (r" @ src/", 46)


def queue_rules(retry=3, streams=2, ring=3, extra=None):
    return (extra or []) + [
        (r'try_send_multi', retry),
        (r'MultiQueue.*::try_recv', retry),
        (r'ReadCursor::get_max_diff', retry),
        (r'ReaderGroup::get_max_diff', streams + 1),
        (r'new_internal', ring),
        (r'MultiQueue.* as std::ops::Drop>::drop', ring + 1),
        (r'point_impl', 5),
        (r'swap_nonoverlapping|swap_chunk|swap_simple|ptr::swap', 12),
        (r'drop_glue::<\[', 6),
        HARNESS_LOOPS,
    ]


# Harnesses that never tear the queue down (handles are forgotten at the end) run with the body of
# Arc<MultiQueue>::drop_slow / Arc<FutWait>::drop_slow removed (-> assert(false); assume(false)):
# the last-reference path is unreachable there, but its symbolic refcount comparison otherwise drags
# the whole destructor into every injected handle drop.  If the code under test ever did reach it,
# the run fails loudly.  Harnesses flagged teardown=True keep the body.
NO_TEARDOWN_CUT = [r'3Arc.*(10MultiQueue|7FutWait).*9drop_slow']

DEFAULT = dict(unwind=4, rules=queue_rules(), mem_gb=16, timeout=780)
# harness runs of a quick check end this many seconds after the check started (a quick check is stopped from outside
# after 900 s; what remains is for trace extraction, native replay and E2); thorough: two hours
QUICK_DEADLINE = 660
THOROUGH_DEADLINE = 7200

ASSUMPTIONS = [
    "sequential consistency: the cfg(multiqueue2_verif) shim atomics ignore Ordering arguments and fences are no-ops",
    "schedule class S(d,b) of DESIGN.md section 4: suspended operations resume in LIFO order; at most b operations start at preemption points",
    "MemoryManager::{get_token,remove_token,update_token,free} and ToFree::delete replaced by never-reclaiming ledger stubs in whole-queue harnesses (kani -Z stubbing; the native replay of such a harness uses the same stubs via --cfg multiqueue2_verif_stubmm); C16/C17 harnesses run and replay the real manager",
    "futures 0.1 replaced by the environment stub /verif/stubs/futures01 (task layer = harness executor)",
    "std::sync::Mutex / parking_lot Mutex+Condvar replaced by single-thread-of-control shims",
    "loop bounds as listed per harness; unwinding assertions on (a bound that is too small fails the run)",
    "Kani/CBMC soundness; cbmc run with --max-field-sensitivity-array-size 2048 and Kani's default flag set",
]

# name -> dict(mod=<rust module>, props=[...], primary=<id>, tier='quick'|'thorough', what=..., bounds=..., + config overrides)
HARNESSES = {}

E2_ONLY = set()
# properties whose check also discharges the MIR->SMT lemmas that serve them (tools/e2.py)
E2_PROPS = {"C01", "C03", "C06", "C08", "C09", "C14"}


def H(name, mod, primary, props, tier, what, bounds="", **cfg):
    d = dict(mod=mod, primary=primary, props=props, tier=tier, what=what, bounds=bounds)
    d.update(cfg)
    HARNESSES[name] = d


def full_path(name):
    h = HARNESSES.get(name)
    return "%s::%s" % (h["mod"], name) if h else name


def primary_of(name):
    return HARNESSES[name]["primary"]


def props_of(name):
    return HARNESSES[name]["props"]


def select(prop, tier):
    """quick: harnesses whose primary property is `prop` and that are tagged quick.
    thorough: every harness that serves `prop` (primary or not), both tags."""
    out = []
    for n, h in HARNESSES.items():
        if tier == "quick":
            if h["primary"] == prop and h["tier"] == "quick":
                out.append(n)
        else:
            if prop in h["props"]:
                out.append(n)
    return out


def config_for(name, tier="quick"):
    cfg = dict(DEFAULT)
    h = HARNESSES.get(name, {})
    for k in ("unwind", "rules", "mem_gb", "timeout", "fp_restrict", "remove_bodies", "cbmc_extra"):
        if k in h:
            cfg[k] = h[k]
    if not h.get("teardown") and "remove_bodies" not in h:
        cfg["remove_bodies"] = NO_TEARDOWN_CUT
    if tier == "thorough":
        cfg["timeout"] = max(cfg["timeout"], h.get("timeout_thorough", 1800))
    return cfg


def default_jobs(tier):
    n = os.cpu_count() or 4
    return max(1, min(8, n // 2))


def optional_covers(name):
    return HARNESSES.get(name, {}).get("optional_covers", [])


def needs_native_confirmation(name, desc):
    """Memory-safety verdicts of CBMC's pointer checks (use after free, double free, out of bounds) do not crash
    a native run; they are confirmed by replaying the counterexample under valgrind memcheck (tools/mqv.py).
    Only where valgrind is missing are they reported unconfirmed for the harnesses whose oracle they are
    (C16/C17).  (Round 1 reported them unconfirmed always; a pointer-check 'failure' of c16_add_vs_scan in a
    run with NO injected operation, which appeared only when an unrelated edit changed the crate hash and
    with it CBMC's symbol order, showed that this is not safe: DESIGN.md section 12, false alarms.)"""
    import shutil
    if shutil.which("valgrind"):
        return True
    h = HARNESSES.get(name, {})
    if h.get("builtin_oracle") and not re.match(r"^C\d\d", desc):
        return False
    return True


# ---------------------------------------------------------------------------------------------
# harness table

T = "scen_traffic"
TR_ALL = ["C01", "C02", "C03", "C06", "C18"]
OPT_PREFIX = ["prefix wrapped or advanced the ring"]

H("t1_mp_n2_o0", T, "C01", TR_ALL + ["C12"], "quick",
  "mpmc, two producers (multi-writer) + consumer; producer 0's try_send preempted everywhere by producer 1's try_send and the consumer's try_recv",
  "N=2, 1 op per actor, depth 1, budget 2", optional_covers=OPT_PREFIX)
H("t1_mp_n2_o2", T, "C02", TR_ALL, "quick",
  "mpmc, two producers + consumer; the consumer's try_recv preempted everywhere by both producers' try_send",
  "N=2, 1 op per actor, depth 1, budget 2", optional_covers=OPT_PREFIX)
H("t1_bc_n2_o0", T, "C02", TR_ALL + ["C12"], "quick",
  "broadcast, two producers + consumer; producer 0's try_send preempted everywhere",
  "N=2, 1 op per actor, depth 1, budget 2", optional_covers=OPT_PREFIX)
H("t1_mp_n1_o0", T, "C03", TR_ALL, "quick",
  "mpmc N=1, two producers + consumer after a symbolic prefix that may wrap the ring",
  "N=1, prefix <=1 send/recv, 1 op per actor, depth 1, budget 2")
H("t2_mp_n2_o1", T, "C02", TR_ALL, "quick",
  "mpmc, one producer + two consumers sharing the stream; consumer A's try_recv (speculative read + CAS) preempted everywhere by consumer B's try_recv and the producer",
  "N=2, prefix <=2 sends <=1 recv, 1 op per actor, depth 1, budget 2")
H("t2_bc_n2_o1", T, "C06", TR_ALL, "quick",
  "broadcast, one producer + two consumers sharing a stream (pin/unpin path); consumer A preempted everywhere",
  "N=2, prefix <=2 sends <=1 recv, 1 op per actor, depth 1, budget 2")
H("t2_bc_n2_o0", T, "C03", TR_ALL, "quick",
  "broadcast, producer's try_send preempted everywhere by two consumers of one shared stream",
  "N=2, prefix <=2 sends <=1 recv, 1 op per actor, depth 1, budget 2")
H("t3_bc_n2_o0", T, "C03", TR_ALL, "quick",
  "broadcast, two streams; producer's try_send (tail recomputation over both streams) preempted everywhere by both consumers",
  "N=2, prefix <=2 sends <=1 recv per stream, depth 1, budget 2")
H("t3_bc_n1_o1", T, "C02", TR_ALL, "quick",
  "broadcast N=1, two streams; stream 0's consumer preempted by the producer and stream 1's consumer",
  "N=1, prefix <=1 send/recv, depth 1, budget 2")
H("t4_mp_n1_o0", T, "C06", TR_ALL, "quick",
  "mpmc N=1 single writer / single reader fast paths; producer's two sends preempted by the consumer's two receives",
  "N=1, prefix <=1 send/recv, 2 ops per actor, depth 1, budget 2")
H("t4_bc_n2_o1", T, "C01", TR_ALL, "quick",
  "broadcast single writer / single reader; consumer's two receives preempted by the producer's two sends",
  "N=2, prefix <=2 sends/recvs, 2 ops per actor, depth 1, budget 2")
H("t5_bc_n2_o1", T, "C01", TR_ALL + ["C04"], "quick",
  "broadcast in-place viewer (into_single) preempted everywhere, including inside the view closure, by the producer",
  "N=2, prefix <=2 sends <=1 view, depth 1, budget 2")
H("t5_mp_n1_o0", T, "C03", TR_ALL + ["C04"], "quick",
  "mpmc N=1 producer preempted everywhere by an in-place viewer",
  "N=1, prefix <=1 send/view, depth 1, budget 2")

# ---- instrumented payload (C04 / C05)
H("c04_bc_shared_inclone", T, "C04", ["C04", "C05", "C01", "C03", "C06"], "quick",
  "broadcast shared stream, instrumented payload: consumer A is in the middle of clone(); up to 3 operations of its sibling consumer and of the producer (which wraps the ring) run there",
  "N=2, prefix <=2 sends <=1 recv, injection only inside Clone, up to 3 ops at that site, teardown checked")
H("c05_bc_shared_inclone", T, "C05", ["C05", "C04", "C01", "C03", "C06"], "thorough",
  "the scenario of c04_bc_shared_inclone run by C05's check: a value that the producer overwrites while consumer A is cloning it is DROPPED while in use (the payload's liveness table reports it; the assertion is labelled C04 and re-attributed to C05 here); double drop / leak checked at teardown",
  "N=2, exact prefix 2/1, injection only inside Clone, up to 3 ops at that site, teardown checked", relabel={"C04": "C05"}, mem_gb=26)
H("c04_bc_streams_inclone", T, "C04", ["C04", "C05", "C01", "C03", "C06"], "quick",
  "broadcast two streams, instrumented payload: stream 0's consumer is in the middle of clone(); stream 1's consumer and the producer run there",
  "N=2, prefix <=2 sends <=1 recv, injection only inside Clone, up to 3 ops at that site, teardown checked")
H("c04_bc_view_inview", T, "C04", ["C04", "C05", "C03"], "quick",
  "broadcast in-place viewer, instrumented payload: the producer tries to wrap the ring while the view closure runs",
  "N=2, injection only inside the view closure, up to 3 sends there, teardown checked")
H("c04_mp_view_inview", T, "C05", ["C04", "C05", "C03"], "quick",
  "mpmc in-place viewer (value dropped in place after the view), instrumented payload, producer wraps the ring inside the closure and inside the destructor of the viewed value",
  "N=2, injection only inside the view closure, up to 3 sends there, teardown checked")
H("c06_bc_sibdrop_inclone", T, "C06", ["C06", "C12", "C04", "C05"], "quick",
  "broadcast shared stream, instrumented payload: consumer A is in the middle of clone() when its sibling handle is dropped (consumers 2->1) and the producer sends",
  "N=2, prefix <=2 sends <=1 recv, injection only inside Clone, up to 3 ops at that site")
H("c06_bc_sibdrop_forced", T, "C06", ["C06", "C12", "C04", "C05"], "thorough",
  "broadcast shared stream N=2, instrumented payload: consumer A is inside clone() when its sibling handle is dropped there (always, a concrete place), then solver-chosen up to two sends of the producer; A receives again; quiescent probe/drain",
  "N=2, exact prefix 2/1, forced site = A's first clone", teardown=False)
H("c06_bc_sibdrop_forced_n1", T, "C06", ["C06", "C12", "C04", "C05"], "thorough",
  "as c06_bc_sibdrop_forced with N=1 (the producer reaches the pinned slot at once)", "N=1, exact prefix 1/0", teardown=False)
H("c12_bc_sibdrop_forced", T, "C12", ["C12", "C06", "C04", "C05"], "thorough",
  "consumer handles 2->1 while the other handle is mid-receive (same scenario as c06_bc_sibdrop_forced, run by C12's check): consumer A is inside clone() when its sibling handle is dropped there (always, a concrete place), then solver-chosen up to two sends of the producer; quiescent probe/drain",
  "N=2, exact prefix 2/1, forced site = A's first clone", teardown=False)
H("c06_bc_sibdrop_all", T, "C12", ["C06", "C12", "C01", "C03"], "quick",
  "broadcast shared stream: consumer A's try_recv preempted everywhere by the drop of its sibling handle and a send",
  "N=2, 1 op per actor, depth 1, budget 2")
H("c04_bc_shared_all", T, "C04", ["C04", "C05", "C01", "C06"], "thorough",
  "broadcast shared stream, instrumented payload, all preemption sites, teardown checked",
  "N=2, 1 op per actor, depth 1, budget 2")
H("c05_mp_shared_all", T, "C05", ["C05", "C04", "C01", "C06"], "quick",
  "mpmc shared stream (speculative bitwise read + CAS), instrumented payload, all preemption sites, teardown checked",
  "N=2, 1 op per actor, depth 1, budget 2")

# ---- life cycle
L = "scen_life"
H("c07_mp_one_o1", L, "C07", ["C07", "C01", "C02"], "quick",
  "mpmc: consumer's three try_recv preempted everywhere by the last sender's final send and drop", "N=2, prefix <=2/<=2, budget 2")
H("c07_bc_one_o1", L, "C07", ["C07", "C01", "C02"], "thorough",
  "broadcast: consumer's three try_recv preempted everywhere by the last sender's final send and drop", "N=2, prefix <=2/<=2, budget 2")
H("c07_mp_one_o0", L, "C07", ["C07", "C01"], "thorough",
  "mpmc: last sender's send and drop preempted everywhere by the consumer's receives", "N=2, budget 2")
H("c07_mp_two_o2", L, "C07", ["C07", "C01", "C12"], "thorough",
  "mpmc, two senders each sending once and dropping, injected into the consumer's receives", "N=2, budget 3")
H("c07_bc_two_o0", L, "C07", ["C07", "C01", "C12"], "thorough",
  "broadcast, two senders; sender 0's send and drop preempted by sender 1 and the consumer", "N=2, budget 2")
H("c07_bc_view_o1", L, "C07", ["C07", "C01"], "quick",
  "broadcast in-place viewer: try_recv_view preempted everywhere by the last sender's final send and drop", "N=2, budget 2")
H("c07_mp_view_o1", L, "C07", ["C07", "C01"], "quick",
  "mpmc in-place viewer: try_recv_view preempted everywhere by the last sender's final send and drop", "N=2, budget 2")
ADDRULES = queue_rules(retry=3, streams=3, extra=[(r'ReadCursor::add_stream', 3), (r'ReadCursor::remove_reader', 3), (r'Vec.*clone|to_vec|retain|extend|spec_', 5)])
H("c10_bc_sole_o1", L, "C10", ["C10", "C01", "C02", "C03", "C06"], "quick",
  "broadcast: add_stream (then a receive) on the sole handle of the parent stream, preempted everywhere by the producer's sends",
  "N=2, prefix <=2/<=2, budget 2", rules=ADDRULES)
H("c10_bc_sole_o0", L, "C10", ["C10", "C03", "C06"], "quick",
  "broadcast: producer's try_send (tail recomputation) preempted everywhere by add_stream and a parent receive",
  "N=2, prefix <=2/<=2, budget 2, up to 2 ops per site", rules=ADDRULES)
H("c03_bc_addstream_o0_n1", L, "C03", ["C03", "C10", "C06"], "quick",
  "broadcast N=1: producer's try_send on a full ring (tail recomputation) preempted everywhere by add_stream and a parent receive; the new stream must still hold the sender back",
  "N=1, prefix <=1/<=1, budget 2, up to 2 ops per site", rules=ADDRULES)
H("c10_bc_sib_o1", L, "C10", ["C10", "C01", "C03", "C06"], "thorough",
  "broadcast: add_stream on one of two handles of the parent stream, preempted by the sibling's receive and the producer's sends",
  "N=2, budget 3, up to 3 ops per site", rules=ADDRULES)
H("c11_bc_drop_last_o1", L, "C11", ["C11", "C03", "C06"], "quick",
  "broadcast two streams: drop of the last handle of the slowest stream preempted everywhere by the producer's sends and the other stream's receive",
  "N=2, prefix fills the ring, budget 2", rules=ADDRULES)
for _suf, _lo, _hi in (("a", 1, 8), ("b", 9, 16), ("c", 17, 24)):
    H("c03_bc_addstream_sitesq_" + _suf, L, "C03", ["C03", "C10", "C01", "C06"], "thorough",
      "broadcast N=1, ring full: the producer's send (slow path: recomputation of the slowest stream over the stream list) with add_stream on the only stream and then the parent consumer's receive at its k-th shared-memory operation, k = %d..%d; afterwards the new stream must get a gap-free suffix from a position its parent held, the parent everything, and the sender must be limited by both (forced-site loop, DESIGN.md 4; nothing else is symbolic)" % (_lo, _hi),
      "N=1, sites %d..%d of 24" % (_lo, _hi), rules=ADDRULES + [(r' @ src/scen_life', 10)], optional_covers=["an operation ran at a preemption point"] if _suf != "a" else [])
for _suf, _lo, _hi in (("a", 1, 12), ("b", 13, 24)):
    H("c10_bc_addstream_sitesq_" + _suf, L, "C10", ["C10", "C03", "C01", "C06"], "thorough",
      "broadcast N=2, ring full: the producer's send with add_stream at its k-th shared-memory operation, k = %d..%d (as c03_bc_addstream_sitesq_*, without the parent's receive)" % (_lo, _hi),
      "N=2, sites %d..%d of 24" % (_lo, _hi), rules=ADDRULES + [(r' @ src/scen_life', 14)], optional_covers=["an operation ran at a preemption point"] if _suf == "b" else [])
H("c11_bc_drop_last_o0", L, "C11", ["C11", "C03", "C06"], "thorough",
  "broadcast two streams: producer retrying on a full queue preempted everywhere by the removal of the blocking stream",
  "N=2, budget 2", rules=ADDRULES)
H("c11_bc_unsub_last_o1", L, "C11", ["C11", "C03"], "quick",
  "broadcast: unsubscribe() of the last handle of a stream (must report true), preempted everywhere", "N=2, budget 2", rules=ADDRULES)
H("c11_bc_unsub_nonlast_o1", L, "C11", ["C11", "C01", "C03", "C06"], "quick",
  "broadcast: unsubscribe() of a non-last handle (must report false; the stream keeps values and backpressure)", "N=2, budget 2", rules=ADDRULES)
H("c11_bc_droprace_o1", L, "C11", ["C11", "C03", "C06", "C16"], "quick",
  "broadcast three streams: drop of stream 0's last handle preempted everywhere by the drop of stream 1's last handle (two list changes racing) and a send",
  "N=2, budget 2", rules=ADDRULES)
H("c11_bc_addrace_o1", L, "C11", ["C11", "C10", "C03", "C06"], "quick",
  "broadcast: drop of stream 0's last handle preempted everywhere by add_stream on stream 1 and a send",
  "N=2, budget 2", rules=ADDRULES)
H("c11_bc_addrace_o2", L, "C10", ["C11", "C10", "C03", "C06"], "quick",
  "broadcast: add_stream on stream 1 preempted everywhere by the drop of stream 0's last handle and a send",
  "N=2, budget 2", rules=ADDRULES)
H("c12_mp_senders_o0", L, "C12", ["C12", "C01", "C02", "C03", "C06"], "quick",
  "mpmc: senders 1->2->1: send in single-writer state, clone, send, while the clone sends and is dropped and the consumer receives",
  "N=2, prefix <=1/<=1, budget 2")
H("c12_bc_senders_o0", L, "C12", ["C12", "C01", "C02", "C03", "C06"], "thorough",
  "broadcast: senders 1->2->1 during traffic", "N=2, budget 2")
H("c12_mp_consumers_o1", L, "C12", ["C12", "C01", "C02", "C03", "C06"], "quick",
  "mpmc: consumers of one stream 1->2->1 (receive, clone, receive; clone receives and is dropped) during traffic",
  "N=2, prefix <=2/<=1, budget 2")
H("c12_bc_consumers_o1", L, "C12", ["C12", "C01", "C02", "C03", "C06"], "thorough",
  "broadcast: consumers of one stream 1->2->1 during traffic", "N=2, budget 2")
PAST_END = "not in forced-site mode, or the forced site lies past the end of the outer operation"
for _nm, _prim, _props, _w in (
        ("c11_bc_droprace", "C11", ["C11", "C03", "C06", "C16"], "three streams: the drop of stream 0's last handle with the drop of stream 1's last handle (two removals: the second compare-exchange on the stream list fails and retries)"),
        ("c11_bc_addrace", "C11", ["C11", "C10", "C03", "C06"], "the drop of stream 0's last handle with add_stream on stream 1"),
        ("c10_bc_addadd", "C10", ["C10", "C11", "C03", "C06"], "add_stream on one handle of a stream with add_stream on the other handle (two additions: the retry must rebuild the new list from the list it observed)"),
        ("c11_bc_bothhandles", "C11", ["C11", "C12", "C03", "C06"], "the last two handles of a stream dropped at the same time (exactly one of them must remove the stream)")):
    H(_nm + "_sites", L, _prim, _props, "thorough",
      "broadcast N=2: " + _w + ": the second list change runs ALWAYS at the k-th shared-memory operation of the first, k = 1..6, optionally (solver-chosen) followed there by a send; afterwards exactly the remaining streams limit the sender and every one of them gets every value (forced-site loop, DESIGN.md 4)",
      "N=2, exact prefix 1/1, sites 1..6", rules=ADDRULES + [(r' @ src/scen_life', 10)], optional_covers=[PAST_END])
    H(_nm + "_sitesq", L, _prim, _props, "thorough",
      "broadcast N=2: " + _w + ": the second list change runs at the k-th shared-memory operation of the first, k = 1..8 (more than it has: witness), the producer's send afterwards; nothing else is symbolic - a site loop executed by the model checker; afterwards exactly the remaining streams limit the sender and every one of them gets every value",
      "N=2, exact prefix 1/1, sites 1..8", rules=ADDRULES + [(r' @ src/scen_life', 10)])
for fl, fln in (("mp", "mpmc"), ("bc", "broadcast")):
    for cn, w in (("senders2a", "sender handles 1->2: clone tx, the clone sends (multi-writer path); the long-lived sender - which sent in single-writer state before - sends and the consumer receives at the churning actor's preemption points"),
                  ("senders2b", "sender handles 2->1: the clone sends, the clone is dropped; the long-lived sender sends and the consumer receives at the churning actor's preemption points"),
                  ("consumers2a", "consumer handles of one stream 1->2: clone rx, the clone receives; the producer sends and the long-lived consumer receives at the churning actor's preemption points"),
                  ("consumers2b", "consumer handles of one stream 2->1: the clone receives, the clone is dropped; the producer sends and the long-lived consumer receives at the churning actor's preemption points")):
        H("c12_%s_%s" % (fl, cn), L, "C12", ["C12", "C01", "C02", "C03", "C06"], "thorough", fln + ": " + w, "N=2, symbolic prefix, budget 2, 1 operation per site", mem_gb=26)
for n, w in (("c13_mp_one", "mpmc, one receiver handle"), ("c13_mp_two_handles", "mpmc, two handles of one stream"),
             ("c13_bc_two_streams", "broadcast, two streams, two senders"), ("c13_bc_two_handles", "broadcast N=1, two handles of one stream"),
             ("c13_bc_two_streams_rx0first", "broadcast N=1, two streams, stream 0 removed first")):
    H(n, L, "C13", ["C13"], "quick",
      w + ": every receiver dropped, then try_send on every sender must hand the value back as Disconnected; symbolic: value queued or not, reclamation-epoch announcement pending or not",
      "sequential; drop order and number of senders are harness parameters", rules=ADDRULES)

# ---- blocking receive
W = "scen_wait"
WRULES = queue_rules(retry=3, extra=[(r'BlockingWait.*::wait', 3), (r'BusyWait.*::wait', 16), (r'YieldingWait.*::wait', 12),
                                      (r'InnerRecv.*::recv_view', 3), (r'InnerRecv.*::recv', 3), (r'cv_wait_impl', 4)])
for n, w in (("c08_mp_blk00_send", "mpmc BlockingWait(0,0): blocked recv vs one send"),
             ("c08_bc_blk00_senddrop", "broadcast BlockingWait(0,0): blocked recv vs send + drop of the last sender"),
             ("c08_mp_blk00_drop", "mpmc BlockingWait(0,0): blocked recv vs drop of the last sender"),
             ("c08_bc_blk00_sibling", "broadcast BlockingWait(0,0): blocked recv, two sends, a sibling consumer that takes one value"),
             ("c08_bc_blk00_sibling_n1", "broadcast N=1 BlockingWait(0,0): blocked recv; the producer laps the ring while a sibling consumer takes one value"),
             ("c08_mp_blk00_sibling_n1", "mpmc N=1 BlockingWait(0,0): blocked recv; the producer laps the ring while a sibling consumer takes one value"),
             ("c08_mp_busy_sibling_n1", "mpmc N=1 BusyWait: spinning recv; producer laps the ring, sibling takes one value"),
             ("c08_mp_blk11_send", "mpmc BlockingWait(1,1): blocked recv vs one send"),
             ("c08_bc_blk20_view", "broadcast BlockingWait(2,0): blocked recv_view vs one send"),
             ("c08_mp_busy_send", "mpmc BusyWait: spinning recv vs one send"),
             ("c08_mp_busy_drop", "mpmc BusyWait: spinning recv vs drop of the last sender"),
             ("c08_bc_yield11_senddrop", "broadcast YieldingWait(1,1): recv vs send + drop"),
             ("c08_mp_yield01_sibling", "mpmc YieldingWait(0,1): recv, two sends, sibling consumer")):
    H(n, W, "C08", ["C08", "C07"], "quick" if False and n in ("c08_mp_blk00_send", "c08_bc_blk00_senddrop", "c08_mp_blk00_drop", "c08_mp_busy_send", "c08_bc_yield11_senddrop", "c08_bc_blk00_sibling_n1") else "thorough",
      w + "; sender/sibling operations run at every preemption point of the waiter and inside the condvar wait; stuck detector",
      "N=2, budget = number of operations of the others (1-3), one per site", rules=WRULES)

# ---- real memory manager
M = "scen_mem"
FP = [(r'ToFree.*6delete', [r'ToFree.*3new.*7do_free'])]
MEMRULES = queue_rules(retry=4, streams=3, ring=3, extra=[
    (r'ReadCursor::add_stream', 4), (r'ReadCursor::remove_reader', 4),
    (r'MemoryManagerInner.*try_freeing', 26), (r'MemoryManagerInner.* as std::ops::Drop>::drop', 30), (r'MemoryManager as std::ops::Drop>::drop', 30), (r'verif_preload', 24),
    (r'do_free', 3), (r'swap_nonoverlapping|swap_simple|swap_chunk', 6),
    (r'Vec.*clone|to_vec|retain|extend|spec_|Drain|drain|process_loop', 8)])
for n, w in (("c17_teardown_mp", "mpmc"), ("c17_teardown_bc_stream", "broadcast with an added stream"), ("c17_teardown_bc_clone", "broadcast N=1 with cloned sender and receiver")):
    H(n, M, "C17", ["C17", "C16", "C05"], "quick",
      w + ": build, optionally queue a value, drop every handle in a solver-chosen order with the REAL memory manager; allocation counters must return to zero; CBMC pointer checks on",
      "sequential; symbolic: queued value, senders-first, receiver order", rules=MEMRULES, fp_restrict=FP, builtin_oracle=True, unwind=6)

# ---- C16 unit level (real MemoryManager + ReadCursor)
for _k in range(1, 5):
    _n = "c16_free_vs_free_f%d" % _k
    H(_n, M, "C16", ["C16", "C17"], "thorough",
      "REAL MemoryManager, two retirements racing, forced-site mode: handle B's whole free(), which crosses the threshold (start_free hands the waiting list over as the batch of a new epoch), runs at the %d-th shared access / lock / allocation call of handle A's free(); nobody announces, so nothing may be deallocated" % _k,
      "20 pre-loaded retirements, 2 tokens, forced site %d; a site at which B would wait for a lock A holds is outside the class (the harness is then vacuous and reported as such)" % _k, rules=MEMRULES, fp_restrict=FP, builtin_oracle=True, unwind=6)
    _OPT_LATE = globals().setdefault("_OPT_LATE", [])
    _OPT_LATE.append((_n, ("an operation ran at a preemption point", "the threshold was crossed: a new epoch is pending", "the forced site lies past the end of the outer operation")))
for n, w, t in (("c16_protocol_seq", "sequential: 20 pre-loaded retirements, two writer scans, add_stream, remove_reader, final announce + retirement (reclamation cycle witnessed)", "quick"),
                ("c16_protocol_o0", "writer's announce+scan preempted everywhere by the consumer's announce+add_stream / announce+remove_reader (retirements crossing the reclamation threshold)", "quick"),
                ("c16_protocol_o1", "consumer's add_stream / remove_reader (incl. inside free/start_free/try_freeing) preempted everywhere by the writer's announce+scan", "quick"),
                ("c16_protocol_idle_o0", "as o0 with a third registered token that never announces: nothing may be reclaimed", "thorough")):
    H(n, M, "C16", ["C16", "C17"], t,
      "REAL MemoryManager + ReadCursor on the harness stack, " + w + "; CBMC pointer checks are the oracle",
      "20 pre-loaded retirements (threshold 20), 2 tokens, depth 1, budget 2", rules=MEMRULES, fp_restrict=FP, builtin_oracle=True, unwind=6, mem_gb=24)

# ---- sequential histories
S = "scen_seq"
SEQRULES = queue_rules(retry=3, streams=3, ring=3, extra=[(r'InnerRecv.*::recv', 2), (r'BusyWait.*::wait', 2), (r'ReadCursor::add_stream', 3), (r'ReadCursor::remove_reader', 3), (r'Vec.*clone|to_vec|retain|extend|spec_', 5)])
for n, w, t in (("c09_mp_a1", "mpmc N=2, skeleton 1 (send send clone recv0 recv1 send drop1 recv0 send recv0)", "quick"),
                ("c09_bc_a1", "broadcast N=1, skeleton 1", "thorough"),
                ("c09_bc_a2", "broadcast N=2, skeleton 2 (send send add_stream recv0 recv1 send unsubscribe send recv0 send)", "quick"),
                ("c09_mp_a3", "mpmc N=1, skeleton 3 (send clone_tx send1 drop_tx1 recv send drop_tx0 recv recv send)", "quick"),
                ("c09_bc_a3", "broadcast N=2, skeleton 3", "thorough"),
                ("c09_mp_a4", "mpmc N=1, skeleton 4 (send into_single view send view into_multi clone recv0 into_single recv0)", "quick"),
                ("c09_bc_a4", "broadcast N=2, skeleton 4", "thorough"),
                ("c09_bc_a5", "broadcast N=2, skeleton 5 (send add_stream recv0 drop_rx0 send send recv1 send drop_rx1 send)", "quick")):
    H(n, S, "C09", ["C09", "C13", "C07", "C11"], t, "10-call skeleton, every traffic call (send, receive, view) optional by solver choice, structural calls always vs the reference model: " + w,
      "10 steps, sequential", rules=SEQRULES)
for n, cap, N in (("c03_fill_mp_c0", 0, 1), ("c03_fill_bc_c1", 1, 1), ("c03_fill_mp_c2", 2, 2), ("c03_fill_bc_c3", 3, 4), ("c03_fill_mp_c4", 4, 4),
                  ("c03_fill_bc_c5", 5, 8), ("c03_fill_mp_c7", 7, 8), ("c03_fill_bc_c8", 8, 8), ("c03_fill_mp_c9", 9, 16)):
    H(n, S, "C03", ["C03", "C09"], "quick", "requested capacity %d: exactly N=%d sends accepted, then Full with the same value; after k (symbolic) receives exactly k more" % (cap, N),
      "sequential", rules=queue_rules(ring=N + 2))

for n, w in (("c17_announce_bc", "broadcast N=2: tx0, rx0 (stream 0), single-consumer receiver on stream 1"), ("c17_announce_mp", "mpmc N=2: tx0, single-consumer receiver")):
    H(n, S, "C17", ["C17", "C16", "C09"], "quick",
      w + "; with a reclamation epoch pending, every operation that returns (try_send Ok, try_recv Ok/Empty, try_recv_view Ok/Empty; the value is queued or not by solver choice) must have announced the epoch (update_token recorded by the stub manager): a handle that operates without announcing blocks every reclamation cycle, so retired memory grows with churn",
      "sequential, 5 calls, stubbed manager (ledger of update_token calls)", rules=SEQRULES)
# ---- futures
FU = "scen_fut"
FUTRULES = queue_rules(retry=3, extra=[(r'FutWait.*spin|FutWait.*send_or_park', 3), (r'Stream.*poll|as futures::Stream>::poll', 4),
                                       (r'VecDeque|vec_deque|Drain|drain|SmallVec|smallvec|extend', 4)])
for n, w, t in (("c14_bc_poll_vs_send", "broadcast spins(0,0): stream task polls an empty queue, sink task start_sends at every preemption point of the poll", "quick"),
                ("c14_mp_poll_vs_send", "mpmc N=1 spins(0,0): poll vs start_send", "thorough"),
                ("c14_mp_send_vs_poll", "mpmc N=1 spins(0,0): sink task start_sends into a full queue, the stream task's poll frees a slot at every preemption point", "quick"),
                ("c14_bc_send_vs_poll", "broadcast N=2 spins(0,0): start_send into a full queue vs poll", "thorough"),
                ("c14_mp_send_vs_tryrecv", "mpmc N=1: start_send into a full queue vs a DIRECT try_recv that frees the slot", "quick"),
                ("c14_bc_poll_vs_droptx", "broadcast: poll on an empty queue vs drop of the last sender", "quick"),
                ("c14_mp_send_vs_droprx", "mpmc N=1: start_send into a full queue vs drop of the last receiver", "quick"),
                ("c14_bc_two_polls", "broadcast: two stream tasks on one shared stream poll, sink task sends twice", "thorough"),
                ("c14_bc_send_vs_upoll", "broadcast N=1: start_send into a full queue vs poll of the single-consumer (view) receiver", "thorough"),
                ("c14_bc10_poll_vs_send", "broadcast spins(1,0): poll vs start_send", "thorough"),
                ("c14_mp11_send_vs_poll", "mpmc spins(1,1): start_send into a full queue vs poll", "thorough")):
    H(n, FU, "C14", ["C14", "C15"], t, w + "; parked-and-never-notified oracle at quiescence", "depth 1, budget 1-3, 1 op per site (two_polls: 2), every site", rules=FUTRULES)
for n, w in (("c14s_bc_poll_vs_send", "broadcast N=2: stream task polls an empty (lapped) queue, the sink task's start_send runs at the protocol sites of the poll"),
             ("c14s_mp_poll_vs_send", "mpmc N=1: poll vs start_send"),
             ("c14s_mp_send_vs_poll", "mpmc N=1: sink task start_sends into a full queue, the stream task's poll (frees the slot, notifies) runs at the protocol sites of the start_send"),
             ("c14s_bc_send_vs_poll", "broadcast N=2: start_send into a full queue vs poll"),
             ("c14s_bc_poll_vs_droptx", "broadcast: poll on an empty queue vs drop of the last sender"),
             ("c14s_mp_send_vs_droprx", "mpmc N=1: start_send into a full queue vs drop of the last receiver"),
             ("c14s_bc_droptx_o1_vs_poll", "broadcast: the drop of the last sender preempted (runs exactly once): the stream task's whole poll on the empty queue (may park) runs at its protocol sites"),
             ("c14s_mp_droprx_o1_vs_send", "mpmc N=1: the drop of the last receiver preempted (runs exactly once): the sink task's whole start_send into the full queue (may park) runs at its protocol sites"),
             ("c14s_mp_send_o1_vs_poll", "mpmc N=1: the NOTIFYING side preempted: start_send (publish, then notify) with the stream task's whole poll (may park) at its protocol sites"),
             ("c14s_mp_poll_o1_vs_send", "mpmc N=1: the NOTIFYING side preempted: poll (free the slot, then notify) with the sink task's whole start_send into the full queue (may park) at its protocol sites")):
    H(n, FU, "C14", ["C14", "C15"], "thorough", w + "; preemption sites = every shim operation except plain loads (lock, parked-list push, notify, stores, read-modify-writes); parked-and-never-notified oracle at quiescence",
      "depth 1, budget 1, 1 op per site", rules=FUTRULES)
for n, w in (("c14_bc_two_sender_drops", "broadcast N=1"), ("c14_mp_two_sender_drops", "mpmc N=2")):
    H(n, FU, "C07", ["C07", "C14", "C12", "C15"], "thorough",
      w + ": a stream task is parked on the empty, lapped queue; the last TWO sender handles are dropped concurrently: the whole drop of tx1 runs at the k-th shared-memory operation of the drop of tx0, for every k = 1..10 (forced-site loop; the witness shows that 10 is more than the drop has); the parked task must have been notified (otherwise the end of the stream is never reported)",
      "sequential set-up, 10 forced sites, nothing else symbolic", rules=FUTRULES + [(r' @ src/scen_fut', 12)],
      optional_covers=["the task parked", "an operation ran at a preemption point", "the sink task was polled again while the stream was being removed", "the parked sink task was notified by the removal"])
for n, w in (("c14_bc_sender_drop_repoll", "broadcast N=1"), ("c14_mp_sender_drop_repoll", "mpmc N=2")):
    H(n, FU, "C14", ["C14", "C07", "C15"], "quick",
      w + ": a stream task is parked on the empty, lapped queue; the LAST sender handle is dropped and at the k-th shared-memory operation of that drop, for every k = 1..10 (forced-site loop), a prompt executor re-polls the task if it has been notified by then; the task's last poll must have reported the end of the stream or the task must have been notified after it",
      "sequential set-up, 10 forced sites, nothing else symbolic", rules=FUTRULES + [(r' @ src/scen_fut', 12)],
      optional_covers=["the task parked", "an operation ran at a preemption point", "the sink task was polled again while the stream was being removed", "the parked sink task was notified by the removal", "the task was polled again inside the drop of the last sender"])
for n, w, t in (("c15_bc_hist", "broadcast N=1 spins(0,0)", "quick"), ("c15_mp_hist", "mpmc N=2 spins(0,0)", "quick"),
                ("c15_bc10_hist", "broadcast N=2 spins(1,0)", "thorough")):
    H(n, FU, "C15", ["C15", "C09"], t, "every sub-sequence of the 10-call skeleton start_send start_send try_recv start_send try_send poll_complete poll poll drop_tx poll (after a concrete warm-up that fills the ring, parks once and drains) inside a task vs the model: " + w,
      "10 steps, sequential", rules=FUTRULES)
for n, r, t in (("c17_churn_r2", 2, "thorough"), ("c17_churn_r3", 3, "thorough")):
    H(n, M, "C17", ["C17", "C16"], t,
      "REAL MemoryManager, %d rounds of 21 retirements; in every round a solver-chosen subset of the two registered handles announces; conservation oracle: retired == freed + pending at every round" % r,
      "%d retirements, 2 tokens, sequential, symbolic lag pattern" % (21 * r + 1), rules=MEMRULES + [(r' @ src/scen_mem', 30)], fp_restrict=FP, builtin_oracle=True, unwind=6, mem_gb=24)
H("c18_bc_shared_inclone_mw", T, "C18", ["C18", "C04", "C05", "C03"], "quick",
  "broadcast shared stream, two live senders (multi-writer CAS path), instrumented payload: consumer A frozen in the middle of clone(); its sibling's try_recv and the producer's try_send (which reaches the pinned slot) must each finish in a bounded number of their own steps",
  "N=2, injection only inside Clone, up to 3 ops at that site; retry loops bound 3 with unwinding assertions")
for n in ("c04_bc_shared_inclone", "c05_bc_shared_inclone", "c04_bc_streams_inclone", "c04_bc_view_inview", "c04_mp_view_inview", "c04_bc_shared_all", "c05_mp_shared_all",
          "c18_bc_shared_inclone_mw", "c17_teardown_mp", "c17_teardown_bc_stream", "c17_teardown_bc_clone"):
    HARNESSES[n]["teardown"] = True
H("c16_wq_drop_seq", M, "C16", ["C16", "C17"], "thorough",
  "whole queue, REAL memory manager, sequential: 19 pre-loaded retirements, drop of a stream's last handle, stream churn, announces, reclamation cycle", "sequential",
  rules=MEMRULES, fp_restrict=FP, builtin_oracle=True, unwind=6, mem_gb=24, teardown=True)
H("c16_wq_drop_ptrwin", M, "C16", ["C16", "C11"], "thorough",
  "whole queue, REAL memory manager: drop of a stream's last handle preempted at every stream-list pointer access and lock by up to 4 operations of the others (add_stream, try_recv, drop of the new stream, try_send) that retire the list it is walking, cross the reclamation threshold, announce and reclaim",
  "19 pre-loaded retirements, window: pointer cells + locks + allocation calls, budget 4, up to 4 ops per site", rules=MEMRULES, fp_restrict=FP, builtin_oracle=True, unwind=6, mem_gb=24, teardown=True, timeout=3000)
H("c18_mp_frozen_recv", T, "C18", ["C18", "C01", "C06"], "quick",
  "mpmc: the consumer is frozen at a solver-chosen shared access of try_recv while one producer's try_send runs alone: bounded own steps, bounded retry loops",
  "N=2, budget 1", optional_covers=OPT_PREFIX)
H("c18_bc_frozen_send", T, "C18", ["C18", "C01", "C03", "C06"], "quick",
  "broadcast shared stream: the producer is frozen at a solver-chosen shared access of try_send (e.g. slot claimed, not yet published) while one consumer's try_recv runs alone",
  "N=2, prefix <=1/<=1, budget 1")
H("c18_mp_frozen_send_mw", T, "C18", ["C18", "C01", "C03", "C06"], "quick",
  "mpmc N=1 multi-writer: producer 0 is frozen at a solver-chosen shared access of try_send_multi (CAS claim loop) while producer 1's try_send or the consumer's try_recv runs alone",
  "N=1, prefix <=1/<=1, budget 1")
for n, w, t in (("c05_seq_bc_n2_streams", "broadcast N=2, two streams", "quick"), ("c05_seq_bc_n1_shared", "broadcast N=1, two handles on one stream", "quick"),
                ("c05_seq_mp_n2_shared", "mpmc N=2, two handles on one stream", "quick"), ("c05_seq_mp_n1_single", "mpmc N=1, one handle (view drops in place)", "thorough"),
                ("c05_seq_bc_n2_single", "broadcast N=2, one handle (in-place view)", "thorough")):
    H(n, S, "C05", ["C05", "C17"], t,
      "sequential template with the instrumented payload: ps sends, pr0/pr1 receives, ps2 more sends (overwriting passed slots), optional in-place view, teardown in a solver-chosen order; every payload and clone dropped exactly once; " + w,
      "sequential; symbolic counts <= N; view and teardown order are harness parameters", rules=SEQRULES, teardown=True)
for n, w in (("c05_bcfut_uni_addstream", "broadcast futures"), ("c05_mpfut_uni_addstream", "mpmc futures (move-out)")):
    H(n, FU, "C05", ["C05", "C04", "C01"], "quick",
      w + " single-consumer receiver: into_single, add_stream_with, one send, one in-place receive on each stream; instrumented payload (a value handed out after it was destroyed is asserted)",
      "sequential", rules=FUTRULES + [(r'ReadCursor::add_stream', 3), (r'ReadCursor::remove_reader', 3), (r'Vec.*clone|to_vec|retain|extend|spec_', 5)])
for n, w in (("c15_mpfut_direct_recv", "mpmc futures receiver: direct blocking recv() on an empty queue while the sender's try_send runs at every preemption point"),
             ("c15_bcfut_direct_recv_drop", "broadcast futures receiver: direct blocking recv() on an empty queue vs drop of the last sender")):
    H(n, W, "C15", ["C15", "C08"], "quick", w + "; must return the value / the end like the plain receiver and must not panic", "N=2, budget 3", rules=WRULES + FUTRULES)
H("c14_bc_drop_stream_repoll", FU, "C14", ["C14", "C11"], "quick",
  "broadcast N=1, two streams, ring full because of stream 1 only, sink task parked: the drop of stream 1's last handle is preempted everywhere by the executor re-polling the sink task (only once it has been notified); afterwards the task must have got its value in or have been woken after its last call began",
  "N=1, budget 1", rules=FUTRULES + [(r'ReadCursor::add_stream', 3), (r'ReadCursor::remove_reader', 3), (r'Vec.*clone|to_vec|retain|extend|spec_', 5)])
for n, w, t in (("c08_mp_blk00_send_lap", "mpmc N=1 BlockingWait(0,0), lapped ring: blocked recv vs one send", "quick"),
                ("c08_bc_blk00_senddrop_lap", "broadcast N=2 BlockingWait(0,0), lapped ring: blocked recv vs send + drop of the last sender", "quick"),
                ("c08_mp_blk00_drop_lap", "mpmc N=1 BlockingWait(0,0), lapped ring: blocked recv vs drop of the last sender", "quick"),
                ("c08_bc_blk00_sibling_lap", "broadcast N=1 BlockingWait(0,0), lapped ring: blocked recv, two sends (the ring is lapped again), a sibling consumer takes one value", "quick"),
                ("c08_mp_blk00_lonesender_lap", "mpmc N=1 BlockingWait(0,0), lapped ring: blocked recv; the other sender handle is dropped, then the remaining (formerly multi-writer) sender sends", "quick"),
                ("c08_bc_blk11_lonesender_lap", "broadcast N=2 BlockingWait(1,1), lapped ring: blocked recv; other sender dropped, remaining sender sends", "thorough"),
                ("c08_mp_blk00_exmulti_lap", "mpmc N=1 BlockingWait(0,0), lapped ring: blocked recv vs the first send of a sender that was cloned and whose clone was dropped again during set-up (Multi -> single-writer fallback path of try_send)", "thorough"),
                ("c08_bc_blk00_exmulti_lap", "broadcast N=2 BlockingWait(0,0), lapped ring: as c08_mp_blk00_exmulti_lap", "thorough"),
                ("c08_bc_blk20_view_lap", "broadcast N=1 BlockingWait(2,0), lapped ring: blocked recv_view vs one send", "thorough")):
    H(n, W, "C08", ["C08", "C07", "C12"], t,
      w + "; sender/sibling operations run at every preemption point of the waiter and inside the condvar wait; stuck detector; witness: the receiver really slept",
      "budget = number of operations of the others (1-3), one per site", rules=WRULES)
for n in ("c08_mp_blk00_send", "c08_bc_blk00_senddrop", "c08_mp_blk00_drop", "c08_bc_blk00_sibling_n1"):
    HARNESSES[n]["tier"] = "thorough"

H("c15_bc_fresh_poll", FU, "C15", ["C15", "C14"], "quick",
  "broadcast futures, FRESH never-wrapped empty queue: Stream::poll must return NotReady (or the value once the sink task sent it) - it must not spin inside the call",
  "N=2, sequential (the spin needs no interference); the loop of Stream::poll has bound 4 with an unwinding assertion", rules=FUTRULES, unwind_violation="C15")
H("c10_bc_addadd_o1", L, "C10", ["C10", "C01", "C03", "C06"], "quick",
  "broadcast: add_stream on one handle preempted everywhere by add_stream on a second handle of the same stream and a send (two additions racing on the stream list); all three streams must keep every value and limit the sender",
  "N=2, budget 2", rules=ADDRULES)

# ---- vacuity witnesses that do not apply to a harness (their statement is unreachable for that
# instantiation, e.g. a witness of another KIND of the same generic scenario)
def _opt(name, *covers):
    HARNESSES[name].setdefault("optional_covers", [])
    HARNESSES[name]["optional_covers"] = list(HARNESSES[name]["optional_covers"]) + list(covers)


for _n, _h in list(HARNESSES.items()):
    if _h["mod"] == "scen_fut" and (_n.startswith("c14_") or _n.startswith("c14s_") or _n == "c15_bc_fresh_poll"):
        if _n == "c14_bc_drop_stream_repoll":
            _opt(_n, "the task parked", "an operation ran at a preemption point", "the sink task was polled again while the stream was being removed")
        else:
            _opt(_n, "the sink task was polled again while the stream was being removed", "the parked sink task was notified by the removal")
    if _h["mod"] == "scen_wait":
        _opt(_n, "a waiter was legitimately left blocked")
        if not _n.endswith("_lap"):
            _opt(_n, "the receiver really went to sleep on the condvar")
        if "_drop" in _n and "senddrop" not in _n:
            _opt(_n, "the blocked receiver returned a value")
    if _h["mod"] == "scen_seq" and _n.startswith("c09_") and "_a3" not in _n:
        _opt(_n, "the history saw Disconnected")

# Out of reach: every harness that goes through FutInnerRecv::into_single / FutInnerUniRecv dies in
# CBMC's propositional reduction (out of memory beyond 44 GB at only 0.35 M SSA steps, sequential and
# concrete); not pursued further (DESIGN.md section 11).  The harness functions stay in scen_fut.rs.
for _n in ("c05_bcfut_uni_addstream", "c05_mpfut_uni_addstream", "c14_bc_send_vs_upoll"):
    HARNESSES.pop(_n, None)
H("c11_bc_bothhandles_o1", L, "C11", ["C11", "C12", "C03", "C06"], "quick",
  "broadcast: the last two handles of a stream are dropped at the same time (one drop preempted everywhere by the other and by a send); exactly one of them must remove the stream, afterwards only the remaining stream limits the sender",
  "N=2, budget 2", rules=ADDRULES)
H("c16_protocol_d2_o0", M, "C16", ["C16", "C17"], "thorough",
  "REAL MemoryManager + ReadCursor, nesting depth 2: the writer's scan is preempted everywhere by the consumer's add_stream / remove_reader, and those are themselves preempted everywhere (e.g. between two steps of MemoryManager::free) by a third handle that retires one more object and so starts a reclamation cycle",
  "19 pre-loaded retirements, 2 tokens, depth 2, budget 3, up to 2 ops per site", rules=MEMRULES, fp_restrict=FP, builtin_oracle=True, unwind=6, mem_gb=24, timeout=3000)
for n, w in (("c09_bc_a2w", "broadcast N=1, skeleton 2w (send recv0 send add_stream recv1 recv0 send recv1 unsubscribe send): the stream is added after the ring wrapped"),
             ("c09_mp_a1w", "mpmc N=1, skeleton 1w (send recv0 send clone recv1 recv0 send recv1 drop1 recv0): the receiver is cloned after the ring wrapped"),
             ("c09_bc_a5w", "broadcast N=2, skeleton 5w (send recv0 send add_stream recv1 recv0 drop_rx0 send drop_rx1 send)")):
    H(n, S, "C09", ["C09", "C10", "C11", "C13"], "quick", "10-call skeleton, every traffic call optional by solver choice, structural calls always, vs the reference model: " + w,
      "10 steps, sequential", rules=SEQRULES)
    _opt(n, "the history saw Disconnected")
_opt("c09_bc_a4", "the history wrapped the ring", "the history hit Full")
H("c08_mp_blk00_twodrops_lap", W, "C08", ["C08", "C07", "C12"], "thorough",
  "mpmc N=1 BlockingWait(0,0), lapped ring: blocked recv while the last two sender handles are dropped, nesting depth 2 (one drop preempted everywhere by the other, both inside the waiter's wait)",
  "depth 2, budget 2", rules=WRULES, timeout=3000)
for _k in range(1, 17):
    _n = "c16_wq_drop_f%02d" % _k
    H(_n, M, "C16", ["C16", "C11"], "thorough",
      "whole queue, REAL memory manager, forced-site mode: at the %d-th window site (stream-list pointer access, lock or allocation call) of the drop of a stream's last handle ALL of add_stream, rx1.try_recv, tx0.try_send, drop(new stream) run, in the order that completes a reclamation cycle inside the window; CBMC pointer checks are the oracle" % _k,
      "19 pre-loaded retirements, forced site %d, 4 ops at that site, payloads symbolic, everything else concrete" % _k, rules=MEMRULES, fp_restrict=FP, builtin_oracle=True, unwind=6, mem_gb=24, teardown=True, timeout=1500)
    _opt(_n, "three operations ran inside the removal", "a reclamation cycle freed the pre-loaded batch", "not in forced-site mode, or the forced site lies past the end of the outer operation")
_opt("c16_protocol_seq", "an operation ran at a preemption point")
for _n, _c in _OPT_LATE:
    _opt(_n, *_c)
_opt("c16_wq_drop_seq", "three operations ran inside the removal", "a reclamation cycle freed the pre-loaded batch")
_opt("c08_mp_blk00_twodrops_lap", "a waiter was legitimately left blocked", "the blocked receiver returned a value")

for n, w in (("c17_churn_r3_nolag", "every handle announces in every round"), ("c17_churn_r3_lag", "handle 2 does no operation during round 2, i.e. it lags exactly while the first batch waits for it")):
    H(n, M, "C17", ["C17", "C16"], "quick",
      "REAL MemoryManager, 3 rounds of 21 retirements, " + w + "; conservation oracle: retired == freed + pending after every round, at most two batches pending at the end",
      "64 retirements, 2 tokens, sequential", rules=MEMRULES + [(r' @ src/scen_mem', 30)], fp_restrict=FP, builtin_oracle=True, unwind=6, mem_gb=24)
H("c17_churn_tokens_r3", M, "C17", ["C17", "C16"], "quick",
  "REAL MemoryManager, handle churn as the queue performs it: 3 rounds of 21 get_token/remove_token cycles (a cloned and dropped handle) while two fixed handles announce every epoch; conservation oracle after every round, at most two batches of retired tokens still held at the end",
  "64 token cycles, 2 fixed tokens, sequential", rules=MEMRULES + [(r' @ src/scen_mem', 30)], fp_restrict=FP, builtin_oracle=True, unwind=6, mem_gb=24)
for n, w in (("c15_bc_hist6", "broadcast N=1, first 6 steps"), ("c15_mp_hist6", "mpmc N=2, first 6 steps"), ("c15_mp_hist8", "mpmc N=1, first 8 steps (two polls that may park)")):
    H(n, FU, "C15", ["C15", "C09"], "quick",
      "skeleton start_send start_send try_recv start_send try_send poll_complete [poll poll] after the concrete warm-up, every call optional, inside a task, vs the model: " + w,
      "sequential", rules=FUTRULES)
for n in ("c15_bc_hist", "c15_mp_hist"):
    HARNESSES[n]["tier"] = "thorough"

# fresh-ring (non-lapped) waiting scenarios spin through the recv loop before anybody runs: bound 5
WRULES_FRESH = [(p, (5 if p.startswith("InnerRecv") else b)) for (p, b) in WRULES]
for _n, _h in HARNESSES.items():
    if _h["mod"] == "scen_wait" and not _n.endswith("_lap"):
        _h["rules"] = (WRULES_FRESH + FUTRULES) if _n.startswith("c15_") else WRULES_FRESH

for _n in ("c04_bc_shared_inclone", "c04_bc_streams_inclone", "c18_bc_shared_inclone_mw", "c05_mp_shared_all"):
    HARNESSES[_n]["mem_gb"] = 26
for n, w in (("c16_scan_vs_add", "the writer's announce+scan preempted everywhere (shared accesses and allocation calls) by the consumer's announce+add_stream, whose retirement crosses the reclamation threshold"),
             ("c16_add_vs_scan", "the consumer's announce+add_stream (incl. inside free / start_free / try_freeing) preempted everywhere by the writer's announce+scan"),
             ("c16_scan_vs_remove", "the writer's announce+scan preempted everywhere by the consumer's announce+remove_reader (two retirements crossing the threshold)"),
             ("c16_remove_vs_scan", "the consumer's announce+remove_reader preempted everywhere by the writer's announce+scan")):
    H(n, M, "C16", ["C16", "C17"], "quick",
      "REAL MemoryManager + ReadCursor on the harness stack, 19-20 pre-loaded retirements: " + w + "; CBMC pointer checks are the oracle",
      "2 tokens, depth 1, budget 1", rules=MEMRULES, fp_restrict=FP, builtin_oracle=True, unwind=6, mem_gb=24)
for n in ("c16_protocol_o0", "c16_protocol_o1"):
    HARNESSES[n]["tier"] = "thorough"
    HARNESSES[n]["timeout"] = 3000

# ---------------------------------------------------------------------------------------------
# Final tier assignment.  A quick check has to finish in well under 900 s on 8 cores including
# codegen, E2 and (for known findings) trace extraction + native replay; everything measured above
# ~400 s, and everything not yet measured, is thorough-only.
QUICK = {
    "C01": ["t1_mp_n2_o0", "t4_bc_n2_o1", "t5_bc_n2_o1"],
    "C02": ["t1_mp_n2_o2", "t3_bc_n1_o1", "t2_mp_n2_o1"],
    "C03": ["c03_fill_mp_c0", "c03_fill_bc_c1", "c03_fill_mp_c2", "c03_fill_bc_c3", "c03_fill_mp_c4", "c03_fill_bc_c5", "c03_fill_mp_c7",
            "c03_fill_bc_c8", "c03_fill_mp_c9", "t5_mp_n1_o0", "t1_mp_n1_o0", "c03_bc_addstream_sitesq_a"],
    "C04": ["c04_bc_shared_inclone", "c04_bc_streams_inclone", "c04_bc_view_inview"],
    "C05": ["c04_mp_view_inview", "c05_seq_bc_n2_streams", "c05_seq_bc_n1_shared", "c05_seq_mp_n2_shared", "c05_mp_shared_all", "c05_bc_shared_inclone"],
    "C06": ["t4_mp_n1_o0", "t3_bc_n2_o0", "t2_bc_n2_o0", "c06_bc_sibdrop_forced", "c06_bc_sibdrop_forced_n1"],
    "C07": ["c07_mp_one_o1", "c07_bc_view_o1", "c07_mp_view_o1", "c14_bc_two_sender_drops", "c14_mp_two_sender_drops"],
    "C08": ["c08_mp_blk00_send_lap", "c08_mp_blk00_drop_lap", "c08_mp_blk00_drop", "c08_mp_blk00_exmulti_lap"],
    "C09": ["c09_mp_a1", "c09_bc_a2", "c09_mp_a3", "c09_mp_a4", "c09_bc_a5", "c09_bc_a2w", "c09_mp_a1w", "c09_bc_a5w"],
    "C10": ["c10_bc_sole_o1", "c10_bc_sib_o1", "c10_bc_addadd_sitesq"],
    "C11": ["c11_bc_drop_last_o1", "c11_bc_unsub_last_o1", "c11_bc_unsub_nonlast_o1", "c11_bc_bothhandles_sitesq", "c11_bc_droprace_sitesq", "c11_bc_addrace_sitesq"],
    "C12": ["c12_mp_consumers2a", "c12_mp_consumers2b", "c12_mp_senders2a", "c12_mp_senders2b", "c12_bc_sibdrop_forced"],
    "C13": ["c13_mp_one", "c13_mp_two_handles", "c13_bc_two_streams", "c13_bc_two_handles", "c13_bc_two_streams_rx0first"],
    "C14": ["c14_mp_send_vs_tryrecv", "c14_bc_drop_stream_repoll", "c14s_mp_poll_o1_vs_send", "c14_bc_sender_drop_repoll", "c14_mp_sender_drop_repoll"],
    "C15": ["c15_bc_hist6", "c15_mp_hist6", "c15_mp_hist8", "c15_mpfut_direct_recv", "c15_bcfut_direct_recv_drop", "c15_bc_fresh_poll"],
    "C16": ["c16_protocol_seq", "c16_add_vs_scan", "c16_remove_vs_scan", "c16_free_vs_free_f1", "c16_free_vs_free_f2"],
    "C17": ["c17_teardown_mp", "c17_teardown_bc_stream", "c17_teardown_bc_clone", "c17_churn_r3_nolag", "c17_churn_r3_lag", "c17_churn_tokens_r3", "c17_announce_bc", "c17_announce_mp"],
    "C18": ["c18_mp_frozen_recv", "c18_bc_frozen_send", "c18_mp_frozen_send_mw", "c18_bc_shared_inclone_mw"],
}
for _n, _h in HARNESSES.items():
    _h["tier"] = "thorough"
for _p, _names in QUICK.items():
    for _n in _names:
        HARNESSES[_n]["tier"] = "quick"
        if HARNESSES[_n]["primary"] != _p:
            # a harness is run by the quick check of exactly one property
            if _p not in HARNESSES[_n]["props"]:
                HARNESSES[_n]["props"] = list(HARNESSES[_n]["props"]) + [_p]
            HARNESSES[_n]["primary"] = _p

# ---------------------------------------------------------------------------------------------
# Harnesses measured (tools/batch.py over every registered harness, 8 jobs, 900 s each, this machine) NOT to
# finish: the thorough tier lists them as not explored without running them again (MQV_TRY_ALL=1 runs them).
# harness -> what happened
KNOWN_UNFINISHED = {
    "c03_bc_addstream_o0_n1": "no answer within 900 s",
    "c04_bc_shared_all": "out of memory after 561 s at 2.0 M SSA steps",
    "c05_bcfut_uni_addstream": "out of memory after 121 s at 0.4 M SSA steps",
    "c05_mpfut_uni_addstream": "out of memory after 122 s at 0.4 M SSA steps",
    "c06_bc_sibdrop_all": "no answer within 900 s",
    "c06_bc_sibdrop_inclone": "out of memory after 162 s at 0.6 M SSA steps",
    "c07_bc_two_o0": "no answer within 900 s",
    "c07_mp_two_o2": "no answer within 900 s",
    "c08_bc_blk00_senddrop": "no answer within 900 s",
    "c08_bc_blk00_sibling": "no answer within 900 s",
    "c08_bc_blk00_sibling_lap": "no answer within 900 s",
    "c08_bc_blk00_sibling_n1": "no answer within 900 s",
    "c08_bc_blk11_lonesender_lap": "no answer within 900 s",
    "c08_bc_blk20_view": "no answer within 900 s",
    "c08_bc_yield11_senddrop": "no answer within 900 s",
    "c08_mp_blk00_lonesender_lap": "no answer within 900 s",
    "c08_mp_blk00_send": "no answer within 900 s",
    "c08_mp_blk00_sibling_n1": "no answer within 900 s",
    "c08_mp_blk00_twodrops_lap": "out of memory after 755 s at 3.4 M SSA steps",
    "c08_mp_blk11_send": "no answer within 900 s",
    "c08_mp_busy_send": "no answer within 900 s",
    "c08_mp_busy_sibling_n1": "no answer within 900 s",
    "c08_mp_yield01_sibling": "no answer within 900 s",
    "c10_bc_addadd_o1": "out of memory after 680 s at 1.7 M SSA steps",
    "c10_bc_sole_o0": "no answer within 900 s",
    "c11_bc_addrace_o1": "out of memory after 678 s at 1.8 M SSA steps",
    "c11_bc_addrace_o2": "out of memory after 826 s at 2.5 M SSA steps",
    "c11_bc_bothhandles_o1": "out of memory after 612 s at 2.3 M SSA steps",
    "c11_bc_drop_last_o0": "no answer within 900 s",
    "c11_bc_droprace_o1": "out of memory after 710 s",
    "c12_bc_consumers_o1": "no answer within 900 s",
    "c12_bc_senders_o0": "out of memory after 898 s at 3.6 M SSA steps",
    "c12_mp_consumers_o1": "no answer within 900 s",
    "c14_bc10_poll_vs_send": "no answer within 900 s",
    "c14_bc_poll_vs_droptx": "no answer within 900 s",
    "c14_bc_poll_vs_send": "no answer within 900 s",
    "c14_bc_send_vs_poll": "no answer within 900 s",
    "c14_bc_send_vs_upoll": "no answer within 900 s",
    "c14_bc_two_polls": "no answer within 900 s",
    "c14_mp11_send_vs_poll": "no answer within 900 s",
    "c14_mp_poll_vs_send": "no answer within 900 s",
    "c14_mp_send_vs_droprx": "out of memory after 550 s at 5.4 M SSA steps",
    "c14_mp_send_vs_poll": "no answer within 900 s",
    "c14s_bc_droptx_o1_vs_poll": "out of memory after 137 s at 0.3 M SSA steps",
    "c14s_bc_poll_vs_droptx": "out of memory after 609 s at 2.8 M SSA steps",
    "c14s_bc_poll_vs_send": "no answer within 900 s",
    "c14s_bc_send_vs_poll": "out of memory after 315 s at 1.4 M SSA steps",
    "c14s_mp_droprx_o1_vs_send": "out of memory after 135 s at 0.4 M SSA steps",
    "c14s_mp_poll_vs_send": "no answer within 900 s",
    "c14s_mp_send_o1_vs_poll": "out of memory after 165 s at 0.8 M SSA steps",
    "c14s_mp_send_vs_droprx": "out of memory after 269 s at 1.8 M SSA steps",
    "c14s_mp_send_vs_poll": "out of memory after 305 s at 1.4 M SSA steps",
    "c15_bc10_hist": "out of memory after 177 s at 0.7 M SSA steps",
    "c15_bc_hist": "out of memory after 156 s at 0.6 M SSA steps",
    "c15_mp_hist": "out of memory after 158 s at 0.7 M SSA steps",
    "c16_protocol_d2_o0": "no answer within 900 s",
    "c16_protocol_idle_o0": "no answer within 900 s",
    "c16_protocol_o0": "no answer within 900 s",
    "c16_protocol_o1": "no answer within 900 s",
    "c16_scan_vs_add": "no answer within 900 s",
    "c16_scan_vs_remove": "no answer within 900 s",
    "c16_wq_drop_ptrwin": "no answer within 900 s",
    "c17_churn_r2": "no answer within 900 s",
    "c17_churn_r3": "no answer within 900 s",
}
