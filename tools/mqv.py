#!/usr/bin/env python3
"""Check driver: decides one property of /verif/properties.jsonl on /repo's current working tree.

usage: mqv.py <Cxx> [--tier quick|thorough] [--jobs N] [--keep]
       mqv.py --replay <replay.json>

exit 0  property held on everything explored (KNOWN-FINDING lines possible)
exit 1  VIOLATION property=<id> replay=<path>   (counterexample reproduced natively)
exit 2  machinery problem / inconclusive (timeout, out of memory, vacuous harness, bound too small,
        counterexample that does not reproduce)
"""
import argparse
import concurrent.futures as cf
import hashlib
import json
import os
import re
import shutil
import subprocess
import sys
import time

sys.path.insert(0, os.path.dirname(os.path.abspath(__file__)))
import pipeline as P
import registry as R

VERIF = P.VERIF
# MQV_OUT (self-validation only): keep build dirs, evidence and replays of a mutant run apart
_OUT = os.environ.get("MQV_OUT")
BUILD_ROOT = os.path.join(_OUT, "build") if _OUT else os.path.join(VERIF, ".build")
EVIDENCE_DIR = os.path.join(_OUT, "evidence") if _OUT else os.path.join(VERIF, "evidence")
MAX_TRACES = 3
REPLAY_DIR = os.path.join(_OUT, "replays") if _OUT else os.path.join(VERIF, "replays")
KNOWN = os.path.join(VERIF, "KNOWN_FINDINGS.txt")


def log(*a):
    print(*a, flush=True)


def load_known():
    """lines: known: property=<id> harness=<name|*> label=<text> :: description
              fixed: property=<id> <commit> <what failed>          (suppresses nothing)"""
    out = []
    if not os.path.exists(KNOWN):
        return out
    for line in open(KNOWN):
        line = line.strip()
        if not line.startswith("known:"):
            continue
        m = re.match(r"known:\s*property=(\S+)\s+harness=(\S+)\s+label=(.*?)\s*::\s*(.*)$", line)
        if m:
            out.append(dict(prop=m.group(1), harness=m.group(2), label=m.group(3), what=m.group(4)))
    return out


def match_known(known, prop, harness, desc):
    for k in known:
        if k["prop"] == prop and (k["harness"] == "*" or re.fullmatch(k["harness"], harness)) and k["label"] in desc:
            return k
    return None


def prop_of_desc(desc, primary):
    m = re.match(r"^\"?(C\d\d)[:\s]", desc)
    return m.group(1) if m else primary


# ---------------------------------------------------------------------------------------------
# native replay

REPLAY_CRATE = os.path.join(VERIF, "replay")


def build_replay(build_dir, metas, profile, stubmm=False):
    """Generate and build the native replay binary (harness bodies + real /repo code with the guard
    on, kani::any() := recorded values). Returns the binary path.
    stubmm: build /repo with --cfg multiqueue2_verif_stubmm as well, i.e. with the memory manager
    replaced by the same ledger stubs the Kani harness used (whole-queue harnesses): the real
    manager's own shim operations would otherwise be extra preemption points and shift the recorded
    kani::any() sequence.  Harnesses that run the real manager under Kani replay with it."""
    src = os.path.join(build_dir, "replay_src")
    if os.path.exists(src):
        shutil.rmtree(src)
    shutil.copytree(REPLAY_CRATE, src, ignore=shutil.ignore_patterns("target"))
    arms = []
    for name, m in sorted(metas.items()):
        path = m["pretty_name"]
        arms.append('        "%s" => mq2_harness::%s(),' % (name, path))
    main = open(os.path.join(src, "src/main.rs")).read().replace("        // @ARMS@", "\n".join(arms))
    open(os.path.join(src, "src/main.rs"), "w").write(main)
    cargo = open(os.path.join(src, "Cargo.toml")).read().replace("@VERIF@", VERIF)
    if P.REPO != "/repo":
        cargo = cargo.replace('path = "/repo"', 'path = "%s"' % P.REPO).replace(
            'mq2_harness = { path = "%s/harness" }' % VERIF, 'mq2_harness = { path = "%s" }' % P.harness_dir_for(build_dir))
    open(os.path.join(src, "Cargo.toml"), "w").write(cargo)
    tdir = os.path.join(build_dir, "replay_target" + ("_stubmm" if stubmm else ""))
    cmd = ["cargo", "build", "--offline", "--target-dir", tdir]
    if profile == "release":
        cmd.append("--release")
    env = P.env_for_build()
    if stubmm:
        env["RUSTFLAGS"] += " --cfg multiqueue2_verif_stubmm"
    p = P.run(cmd, cwd=src, env=env)
    if p.returncode != 0:
        raise RuntimeError("replay build failed:\n" + p.stdout[-4000:])
    return os.path.join(tdir, profile if profile == "release" else "debug", "mq2_replay")


def run_replay(binary, replay_json, timeout=30):
    try:
        p = subprocess.run([binary, replay_json], stdout=subprocess.PIPE, stderr=subprocess.STDOUT,
                           text=True, timeout=timeout)
        return p.returncode, p.stdout
    except subprocess.TimeoutExpired:
        return 4, "replay timed out (native run hangs)"


MEMSAFETY_RE = re.compile(r"unallocated memory|dereference failure|rust_dealloc|pointer invalid|deallocated|double free|free argument|pointer outside|pointer NULL|out of bounds", re.I)


def run_replay_memcheck(binary, replay_json, timeout=300):
    """CBMC's pointer checks (use after free, double free, wrong deallocation) do not crash a native run; such a
    counterexample is confirmed by replaying it under valgrind memcheck (rc 9 = memcheck reported an error)."""
    try:
        p = subprocess.run(["valgrind", "-q", "--error-exitcode=9", "--leak-check=no", binary, replay_json],
                           stdout=subprocess.PIPE, stderr=subprocess.STDOUT, text=True, timeout=timeout)
        return p.returncode, p.stdout
    except subprocess.TimeoutExpired:
        return 4, "replay under valgrind timed out"
    except OSError as e:
        return 0, "valgrind not available: %s" % e


# ---------------------------------------------------------------------------------------------

def run_one(name, meta, cfg, workdir, tier):
    """prepare + cbmc for one harness; returns result dict."""
    res = dict(name=name, cfg={k: cfg[k] for k in ("unwind", "timeout", "mem_gb") if k in cfg})
    t0 = time.time()
    try:
        out, steps = P.prepare(meta, workdir, fp_restrict=cfg.get("fp_restrict"),
                               remove_bodies=cfg.get("remove_bodies"))
    except Exception as e:
        res.update(status="error", error=str(e)[-2000:], wall_s=time.time() - t0)
        return res
    loops = P.show_loops(out)
    us, table = P.unwindset_for(loops, cfg["rules"], cfg["unwind"])
    res["goto"] = out
    res["unwindset"] = us
    res["loop_bounds"] = [(k, b) for (_lid, k, b) in table if "/repo/src" in k]
    logp = os.path.join(workdir, name + ".cbmc.json")
    r = P.run_cbmc(out, cfg["unwind"], us, cfg["timeout"], cfg["mem_gb"], logp, extra=cfg.get("cbmc_extra"))
    res["status"] = r["status"]
    res["stats"] = r.get("stats", {})
    res["messages"] = r.get("messages", [])[:5]
    res["cbmc_cmd"] = r["cmd"]
    res["cls"] = P.classify(r["props"])
    res["nprops"] = len(r["props"])
    res["wall_s"] = time.time() - t0
    return res


def get_trace(res, cfg, workdir, prop_name):
    """re-run cbmc for one failed property with --trace; returns list of nondet byte vectors."""
    import hashlib
    logp = os.path.join(workdir, res["name"] + "." + hashlib.md5(prop_name.encode()).hexdigest()[:8] + ".trace.json")
    r = P.run_cbmc(res["goto"], cfg["unwind"], res["unwindset"], cfg["timeout"], cfg["mem_gb"], logp,
                   extra=(cfg.get("cbmc_extra") or []) + ["--property", prop_name], trace=True)
    for pr in r["props"]:
        if pr.get("property") == prop_name and pr.get("status") == "FAILURE" and "trace" in pr:
            return P.extract_nondet(pr["trace"]), pr["trace"]
    if ".unwind." in prop_name:
        # unwinding assertions are created during symbolic execution, `--property` cannot name them:
        # re-run over all properties with traces and pick this one
        r = P.run_cbmc(res["goto"], cfg["unwind"], res["unwindset"], cfg["timeout"], cfg["mem_gb"], logp,
                       extra=(cfg.get("cbmc_extra") or []), trace=True)
        for pr in r["props"]:
            if pr.get("property") == prop_name and pr.get("status") == "FAILURE" and "trace" in pr:
                return P.extract_nondet(pr["trace"]), pr["trace"]
    return None, None


def summarize_trace(trace):
    """human-readable decoded schedule: which harness/queue functions were entered, in order"""
    out = []
    last = None
    for st in trace:
        if st.get("stepType") == "function-call":
            fn = st.get("function", {}).get("displayName", "")
            if re.search(r"(op_[a-z_]+|point_impl|try_send|try_recv|add_stream|remove_reader|notify|wait|park|poll|start_send)", fn) and "verif_hooks" not in fn:
                short = re.sub(r"::<.*", "", fn)
                if short != last:
                    out.append(short)
                    last = short
    return out[:200]


def main():
    ap = argparse.ArgumentParser()
    ap.add_argument("prop", nargs="?")
    ap.add_argument("--tier", default=os.environ.get("VERIF_TIER", "quick"))
    ap.add_argument("--jobs", type=int, default=int(os.environ.get("VERIF_JOBS", "0")))
    ap.add_argument("--keep", action="store_true")
    ap.add_argument("--replay")
    ap.add_argument("--only", help="regex: run only matching harnesses (debugging; no evidence written)")
    args = ap.parse_args()
    seed = int(os.environ.get("VERIF_SEED", "0") or 0)

    if args.replay:
        return replay_main(args.replay)

    prop = args.prop
    tier = args.tier if args.tier in ("quick", "thorough") else "quick"
    if prop in R.E2_ONLY:
        import e2
        return e2.main_check(prop, tier, seed)

    t_start = time.time()
    selected = R.select(prop, tier)
    if args.only:
        selected = [h for h in selected if re.search(args.only, h)]
    if not selected:
        log("no harness registered for %s in tier %s" % (prop, tier))
        return 2
    # deterministic order, rotated by the seed (the verdict has no random component)
    selected = sorted(selected)
    if seed:
        k = seed % len(selected)
        selected = selected[k:] + selected[:k]
    if tier != "quick":
        # within the time budget: first the harnesses built for this property, then the measured (quick) ones of
        # other properties that also evaluate its oracle, then the rest (stable sort keeps the rotated order)
        selected.sort(key=lambda h: (R.primary_of(h) != prop, R.HARNESSES[h]["tier"] != "quick"))

    build_dir = os.path.join(BUILD_ROOT, "%s-%s" % (prop, tier))
    if os.path.exists(build_dir):
        shutil.rmtree(build_dir)
    os.makedirs(build_dir)
    workdir = os.path.join(build_dir, "work")
    try:
        rc = check(prop, tier, seed, selected, build_dir, workdir, args, t_start)
    finally:
        if not args.keep:
            shutil.rmtree(build_dir, ignore_errors=True)
    return rc


def check(prop, tier, seed, selected, build_dir, workdir, args, t_start):
    metas = {}
    log("[%s/%s] codegen from /repo working tree (guard on) ..." % (prop, tier))
    try:
        metas, t_codegen = P.codegen(build_dir, os.path.join(build_dir, "codegen.log"), selected)
    except Exception as e:
        log("codegen failed: %s" % e)
        return 2
    missing = [h for h in selected if h not in metas]
    if missing:
        log("harnesses missing from codegen output: %s" % missing)
        return 2
    jobs = args.jobs or R.default_jobs(tier)
    log("[%s/%s] %d harnesses, %d parallel jobs (codegen %.0fs)" % (prop, tier, len(selected), jobs, t_codegen))
    results = {}
    # quick tier: a check is stopped from outside after 900 s, so harness runs end QUICK_DEADLINE seconds
    # after the start of the check (what is still running then is reported as not explored)
    deadline = t_start + float(os.environ.get("MQV_DEADLINE", R.QUICK_DEADLINE if tier == "quick" else R.THOROUGH_DEADLINE))

    def run_with_deadline(h):
        cfg = dict(R.config_for(h, tier))
        if h in R.KNOWN_UNFINISHED and not os.environ.get("MQV_TRY_ALL"):
            # measured on the reference machine (16 cores, 62 GB): does not finish; not run again unless asked
            return dict(name=h, status="timeout", wall_s=0.0,
                        error="not run: measured not to finish here (%s); set MQV_TRY_ALL=1 to try" % R.KNOWN_UNFINISHED[h])
        left = deadline - time.time()
        if left < 20:
            return dict(name=h, status="timeout", error="not started: the check's time budget was used up", wall_s=0.0)
        cfg["timeout"] = int(min(cfg["timeout"], left))
        return run_one(h, metas[h], cfg, workdir, tier)

    with cf.ThreadPoolExecutor(max_workers=jobs) as ex:
        futs = {ex.submit(run_with_deadline, h): h for h in selected}
        for fu in cf.as_completed(futs):
            h = futs[fu]
            try:
                r = fu.result()
            except Exception as e:
                r = dict(name=h, status="error", error=str(e), wall_s=0.0)
            results[h] = r
            c = r.get("cls", {})
            log("  %-40s %-8s %6.0fs steps=%s ok=%s fail=%s cover=%d/%d" % (
                h, r["status"], r.get("wall_s", 0), r.get("stats", {}).get("steps"),
                c.get("assert_ok", 0) + c.get("builtin_ok", 0),
                len(c.get("assert_fail", [])) + len(c.get("builtin_fail", [])) + len(c.get("unwind_fail", [])),
                len(c.get("cover_sat", [])), len(c.get("cover_sat", [])) + len(c.get("cover_unsat", []))))

    known = load_known()
    inconclusive = []      # machinery problems: exit 2
    unexplored = []        # resource limits: reported, not a verdict either way
    violations = []
    known_hits = []
    side = []
    nontrivial = 0
    replay_bin = {}
    cands_by_h = {}

    for h in selected:
        r = results[h]
        cfg = R.config_for(h, tier)
        primary = R.primary_of(h)
        if r["status"] in ("timeout", "memout"):
            unexplored.append("%s: %s after %.0fs %s" % (h, r["status"], r.get("wall_s", 0), r.get("error", "")))
            continue
        if r["status"] != "done":
            inconclusive.append("%s: %s %s" % (h, r["status"], r.get("error", "") or r.get("messages", "")))
            continue
        c = r["cls"]
        cands = []
        relabel = R.HARNESSES.get(h, {}).get("relabel", {})
        for (pname, desc, loc) in c["assert_fail"]:
            vp = prop_of_desc(desc, primary)
            cands.append((pname, desc, loc, relabel.get(vp, vp)))
        for (pname, desc, loc) in c["builtin_fail"]:
            cands.append((pname, desc, loc, primary))
        for (pname, desc, loc) in c["unwind_fail"]:
            f = loc.get("file", "")
            fn = loc.get("function", "") + " " + pname
            # a loop of the library itself (monomorphised code sometimes loses its file name: "src/lib.rs:0")
            in_repo = "/repo/src" in f or ("multiqueue2::" in fn and "mq2_harness" not in fn.split("multiqueue2::")[0])
            if in_repo:
                f = f if "/repo/src" in f else "/repo/src (function %s)" % loc.get("function", pname)
            uv = R.HARNESSES.get(h, {}).get("unwind_violation")
            if "/repo/src" in f and uv:
                cands.append((pname, "%s: %s at %s:%s (a loop of the queue does not terminate: the call never returns)" % (uv, desc, f, loc.get("line")), loc, uv))
            elif "/repo/src" in f and "C18" in R.props_of(h):
                cands.append((pname, "C18: " + desc + " (a retry loop of the queue did not terminate within its bound)", loc, "C18"))
            else:
                inconclusive.append("%s: unwinding bound too small at %s:%s (%s)" % (h, f, loc.get("line"), desc))
        if not [x for x in c["cover_unsat"] if x not in R.optional_covers(h)] and not cands:
            nontrivial += 1
        for cu in c["cover_unsat"]:
            if cu in R.optional_covers(h):
                continue
            if not cands:
                inconclusive.append("%s: vacuity witness unsatisfiable: %s" % (h, cu))
        # one candidate per (property, label), at most MAX_TRACES per harness (each needs a cbmc re-run)
        seen_labels = set()
        uniq = []
        for (pname, desc, loc, vprop) in cands:
            label = re.sub(r"\s+", " ", desc)[:160]
            if (vprop, label) in seen_labels:
                continue
            seen_labels.add((vprop, label))
            uniq.append((pname, desc, loc, vprop))
        if len(uniq) > MAX_TRACES:
            log("  %s: %d distinct failed assertions, replaying the first %d" % (h, len(uniq), MAX_TRACES))
        cands_by_h[h] = uniq[:MAX_TRACES]

    # counterexample traces: one cbmc re-run per candidate, in parallel
    trace_cache = {}
    todo = [(h, pname) for h in selected for (pname, _d, _l, _v) in cands_by_h.get(h, [])]
    if todo:
        log("[%s/%s] extracting %d counterexample trace(s) ..." % (prop, tier, len(todo)))
        with cf.ThreadPoolExecutor(max_workers=max(1, args.jobs or R.default_jobs(tier))) as ex:
            futs = {ex.submit(get_trace, results[h], R.config_for(h, tier), workdir, pname): (h, pname) for (h, pname) in todo}
            for fu in cf.as_completed(futs):
                try:
                    trace_cache[futs[fu]] = fu.result()
                except Exception as e:
                    trace_cache[futs[fu]] = (None, None)

    for h in selected:
        r = results[h]
        cfg = R.config_for(h, tier)
        primary = R.primary_of(h)
        for (pname, desc, loc, vprop) in cands_by_h.get(h, []):
            where = "%s:%s" % (loc.get("file", "?"), loc.get("line", "?"))
            if vprop != prop and tier == "quick" and False:
                pass
            kf = match_known(known, vprop, h, desc)
            # replay
            vals, trace = trace_cache.get((h, pname), (None, None))
            rep_path = None
            reproduced = None
            out_txt = ""
            if vals is not None:
                os.makedirs(os.path.join(REPLAY_DIR, vprop), exist_ok=True)
                rep_path = os.path.join(REPLAY_DIR, vprop, h + ".json")
                rep = dict(harness=h, property=vprop, assertion=desc, location=where, values=vals,
                           schedule=summarize_trace(trace), tier=tier)
                json.dump(rep, open(rep_path, "w"), indent=1)
                reproduced = True
                memcheck_confirmed = False
                stubmm = R.HARNESSES.get(h, {}).get("mod") != "scen_mem"
                for profile in ("debug", "release"):
                    key = profile + ("+stubmm" if stubmm else "")
                    if key not in replay_bin:
                        try:
                            replay_bin[key] = build_replay(build_dir, metas, profile, stubmm)
                        except Exception as e:
                            replay_bin[key] = None
                            out_txt += "replay build failed: %s\n" % str(e)[-1500:]
                    if not replay_bin[key]:
                        reproduced = None
                        continue
                    rc, txt = run_replay(replay_bin[key], rep_path)
                    out_txt += "[%s] rc=%d %s\n" % (profile, rc, txt[-600:])
                    if rc == 0 and profile == "debug" and MEMSAFETY_RE.search(desc) and not re.match(r'^"?C\d\d', desc):
                        rc, txt = run_replay_memcheck(replay_bin[key], rep_path)
                        out_txt += "[%s, valgrind memcheck] rc=%d %s\n" % (profile, rc, txt[-900:])
                        if rc == 9:
                            memcheck_confirmed = True
                            continue
                    if rc == 0 and profile == "release" and memcheck_confirmed:
                        continue
                    if rc not in (1, 4):
                        reproduced = False if reproduced is not None else None
            item = dict(harness=h, prop=vprop, desc=desc, where=where, replay=rep_path, reproduced=reproduced,
                        replay_out=out_txt[-1500:])
            needs_native = R.needs_native_confirmation(h, desc)
            if reproduced or (not needs_native and vals is not None):
                if kf:
                    known_hits.append((kf, item))
                else:
                    violations.append(item)
            elif vprop != primary and reproduced is False:
                side.append(item)
            else:
                inconclusive.append("%s: counterexample for '%s' did not reproduce natively (%s)" % (h, desc, out_txt.strip()[-400:]))

    # ---- E2: arithmetic lemmas over the MIR of the integer kernels (DESIGN.md section 6)
    e2_results, e2_info = [], {}
    if prop in R.E2_PROPS:
        import e2
        try:
            if "debug" not in replay_bin or not replay_bin["debug"]:
                replay_bin["debug"] = build_replay(build_dir, metas, "debug")
            e2_results, e2_info = e2.run_lemmas(build_dir, [prop], timeout=120, binary=replay_bin["debug"], seed=seed)
        except Exception as e:
            inconclusive.append("E2: %s" % str(e)[-500:])
        if e2_info.get("mismatches"):
            inconclusive.append("E2: MIR->SMT translation disagrees with the native functions on %s" % str(e2_info["mismatches"][:3]))
        for r in e2_results:
            log("  E2 %-4s %-12s %s %s" % (r["id"], r["status"], r.get("verdicts", ""), r.get("detail", "")))
            if r["status"] == "inconclusive":
                inconclusive.append("E2 %s: %s" % (r["id"], r.get("detail", r.get("verdicts"))))
            elif r["status"] == "fails":
                desc = "E2 lemma %s fails: %s" % (r["id"], r["statement"])
                if r.get("expected_sat"):
                    side.append(dict(harness="E2-" + r["id"], prop=prop, desc=desc + " model=%s" % r.get("model"), where="src/countedindex.rs", replay=None))
                    continue
                os.makedirs(os.path.join(REPLAY_DIR, prop), exist_ok=True)
                rep_path = os.path.join(REPLAY_DIR, prop, "E2-%s.json" % r["id"])
                json.dump(dict(kind="E2", lemma=r["id"], property=prop, statement=r["statement"], model=r.get("model"), replay=r.get("replay")),
                          open(rep_path, "w"), indent=1)
                item = dict(harness="E2-" + r["id"], prop=prop, desc=desc, where="MIR of " + ",".join(r["functions"]), replay=rep_path, reproduced=True)
                kf = match_known(known, prop, "E2-" + r["id"], desc)
                if kf:
                    known_hits.append((kf, item))
                else:
                    violations.append(item)
            elif r["status"] == "holds":
                nontrivial += 1

    wall = time.time() - t_start
    write_evidence(prop, tier, seed, selected, results, violations, known_hits, inconclusive, side, nontrivial, wall, e2_results, e2_info, unexplored)

    for (kf, item) in known_hits:
        log("KNOWN-FINDING: property=%s %s [harness %s: %s]" % (kf["prop"], kf["what"], item["harness"], item["desc"]))
    for s in side:
        log("SIDE-FINDING: property=%s harness=%s %s at %s (not reproduced natively)" % (s["prop"], s["harness"], s["desc"], s["where"]))
    if violations:
        for v in violations:
            log("VIOLATION property=%s replay=%s" % (v["prop"], v["replay"]))
            log("  harness=%s assertion=%r at %s" % (v["harness"], v["desc"], v["where"]))
        return 1
    for u in unexplored:
        log("NOT-EXPLORED: " + str(u)[:400])
    if inconclusive:
        for i in inconclusive:
            log("INCONCLUSIVE: " + str(i)[:600])
        return 2
    if nontrivial == 0 and not known_hits:
        log("INCONCLUSIVE: nothing was decided (every harness ran into its time or memory limit)")
        return 2
    log("[%s/%s] held on everything explored: %d of %d harnesses decided, %.0fs" % (prop, tier, len(selected) - len(unexplored), len(selected), wall))
    return 0


def write_evidence(prop, tier, seed, selected, results, violations, known_hits, inconclusive, side, nontrivial, wall, e2_results=None, e2_info=None, unexplored=()):
    os.makedirs(EVIDENCE_DIR, exist_ok=True)
    evaluations = 0
    steps = 0
    clauses = 0
    solver_s = 0.0
    symex_s = 0.0
    samples = []
    functions = set()
    for h in selected:
        r = results[h]
        c = r.get("cls", {})
        evaluations += c.get("assert_ok", 0) + c.get("builtin_ok", 0) + len(c.get("assert_fail", [])) + \
            len(c.get("builtin_fail", [])) + len(c.get("cover_sat", [])) + len(c.get("cover_unsat", []))
        st = r.get("stats", {})
        steps += st.get("steps", 0) or 0
        clauses += st.get("clauses", 0) or 0
        solver_s += st.get("solver_s", 0.0) or 0.0
        symex_s += st.get("symex_s", 0.0) or 0.0
        info = R.HARNESSES.get(h, {})
        for (k, _b) in r.get("loop_bounds", []):
            functions.add(k.split(" @ ")[0])
        samples.append(dict(
            harness=h, what=info.get("what", ""), status=r.get("status"),
            bounds=dict(default_unwind=r.get("cfg", {}).get("unwind"), repo_loops=r.get("loop_bounds", [])[:12],
                        scenario=info.get("bounds", "")),
            properties_checked=c.get("assert_ok", 0) + c.get("builtin_ok", 0),
            failed=[d for (_n, d, _l) in c.get("assert_fail", []) + c.get("builtin_fail", [])][:5],
            witnesses_satisfied=c.get("cover_sat", []), witnesses_unsatisfied=c.get("cover_unsat", []),
            ssa_steps=st.get("steps"), clauses=st.get("clauses"), symex_s=st.get("symex_s"), solver_s=st.get("solver_s"),
            wall_s=round(r.get("wall_s", 0.0), 1)))
    e2_results = e2_results or []
    e2_info = e2_info or {}
    for r in e2_results:
        evaluations += len(r.get("verdicts", {})) + 1
        samples.append(dict(lemma=r["id"], engine="E2 MIR->SMT-LIB2 (z3 + cvc5, 64-bit bit-vectors)", statement=r.get("statement"),
                            functions=r.get("functions"), verdicts=r.get("verdicts"), status=r["status"], solver_s=r.get("solver_s"),
                            model=r.get("model"), replay=r.get("replay"), precondition_satisfiable=r.get("precondition_satisfiable")))
    ev = dict(
        property_id=prop, tier=tier, seed=seed, level="model_checking",
        coverage=dict(
            # model_checking keys: the "model" is the unrolled symbolic program of every harness.
            # states = SSA steps (symbolic program states encoded), transitions = propositional
            # clauses of the transition relation handed to the SAT solver (+ SMT queries of E2)
            states=max(1, steps),
            transitions=max(1, clauses + sum(len(r.get("verdicts", {})) for r in e2_results)),
            evaluations=evaluations,
            distinct_nontrivial=nontrivial,
            rule="one case = one Kani proof harness over the compiled real code (/repo working tree, guard on), decided by "
                 "CBMC 6.11 + cadical for ALL values of its kani::any() inputs (payloads, preemption sites, which operation "
                 "interferes) within the stated loop bounds, unwinding assertions on; evaluations = solver-decided properties "
                 "(assertions, Kani safety checks, vacuity witnesses); a harness counts as non-trivial only if every vacuity "
                 "witness (kani::cover!) was satisfiable and nothing failed",
            samples=samples,
            exhaustive=False,
            engine="kani 0.68 codegen -> goto-cc/goto-instrument -> cbmc 6.11 (cadical), explicit pipeline (tools/pipeline.py)",
            functions_with_bounded_loops=sorted(functions),
            ssa_steps=steps, clauses=clauses, symex_s=round(symex_s, 1), solver_s=round(solver_s, 1),
            inconclusive=inconclusive[:20],
            not_explored=list(unexplored)[:40],
            e2=dict(lemmas=len(e2_results), translator_validation_inputs=e2_info.get("validated", 0),
                    translator_mismatches=len(e2_info.get("mismatches", [])), functions=e2_info.get("functions", [])),
            side_findings=[dict(harness=s["harness"], desc=s["desc"], where=s["where"]) for s in side],
            known_findings=[dict(harness=i["harness"], desc=i["desc"], what=k["what"]) for (k, i) in known_hits],
            traces_validated_against_impl=sum(1 for v in violations if v.get("reproduced")) + sum(1 for (_k, i) in known_hits if i.get("reproduced")),
        ),
        assumptions=R.ASSUMPTIONS,
        wall_s=round(wall, 1),
        violations=len(violations),
    )
    json.dump(ev, open(os.path.join(EVIDENCE_DIR, prop + ".json"), "w"), indent=1)


def replay_main(path):
    rep = json.load(open(path))
    build_dir = os.path.join(BUILD_ROOT, "replay")
    if os.path.exists(build_dir):
        shutil.rmtree(build_dir)
    os.makedirs(build_dir)
    try:
        metas, _ = P.codegen(build_dir, os.path.join(build_dir, "codegen.log"), [rep["harness"]])
        rc_all = 0
        stubmm = R.HARNESSES.get(rep["harness"], {}).get("mod") != "scen_mem"
        for profile in ("debug", "release"):
            b = build_replay(build_dir, metas, profile, stubmm)
            rc, txt = run_replay(b, path)
            log("[%s] rc=%d\n%s" % (profile, rc, txt[-3000:]))
            rc_all = max(rc_all, 1 if rc in (1, 4) else 0)
        if rc_all:
            log("VIOLATION property=%s replay=%s" % (rep.get("property"), path))
        return rc_all
    finally:
        shutil.rmtree(build_dir, ignore_errors=True)


if __name__ == "__main__":
    sys.exit(main())
