#!/usr/bin/env python3
"""Rewrites sections 13 and 14 of DESIGN.md (generated tables) from /verif/evidence and /verif/seeded."""
import os, subprocess, sys
V = os.path.dirname(os.path.dirname(os.path.abspath(__file__)))
p = os.path.join(V, "DESIGN.md")
s = open(p).read()
marker = "\n---------------------------------------------------------------------------------------------\n\n## 13. "
if marker in s:
    s = s[:s.index(marker)]
out = subprocess.run([sys.executable, os.path.join(V, "tools", "design_table.py"), "--mutants"], stdout=subprocess.PIPE, text=True).stdout
quick, mut = out.split("\n| mutant |", 1)
mut = "| mutant |" + mut
s = s.rstrip("\n") + "\n" + marker + """What the quick checks covered (generated from /verif/evidence by tools/update_design_tables.py)

One row per harness / lemma of the last quick run of each check in /verif against /repo (8 jobs on
this machine). `witnesses`: satisfied / unsatisfiable-but-optional vacuity witnesses.

""" + quick.strip("\n") + """

---------------------------------------------------------------------------------------------

## 14. Seeded mutants vs. checks (generated from /verif/seeded/*/result-*.json)

`check run` names the property whose check was run on the mutated scratch worktree, the tier and, where
a single harness family was selected, the `--only` pattern; *detected* = exit 1 with a natively
reproduced counterexample, *missed* = exit 0, *inconclusive* = exit 2 (CBMC reported failures that the
native replay / valgrind did not confirm, or nothing finished). `/repo HEAD` is the commit the scratch
worktree was created from; rows with an older HEAD than the final one (4bcb8f3) were run before the last
repair / hook commits and were not repeated (the harnesses that caught them are unchanged). A mutant with
several rows was run against several checks; the last rows show the state after the checks were
strengthened (section 10).

""" + mut.strip("\n") + "\n"
open(p, "w").write(s)
print("DESIGN.md sections 13/14 rewritten")
