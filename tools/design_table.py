#!/usr/bin/env python3
"""Prints (markdown) what the last quick run of every check covered, from /verif/evidence/*.json, and the
seeded-mutant matrix from /verif/seeded/*/result-*.json.  Pasted into DESIGN.md section 13/10."""
import json, glob, os, sys
V = os.path.dirname(os.path.dirname(os.path.abspath(__file__)))
print("| check | harness / lemma | result | wall s | SSA steps | witnesses |")
print("|---|---|---|---|---|---|")
for f in sorted(glob.glob(V + "/evidence/C*.json")):
    d = json.load(open(f))
    for s in d["coverage"].get("samples", []):
        if "harness" in s:
            ws = "%d sat, %d unsat (optional)" % (len(s.get("witnesses_satisfied", [])), len(s.get("witnesses_unsatisfied", [])))
            res = s.get("status") + (", %d failed" % len(s["failed"]) if s.get("failed") else "")
            print("| %s | %s | %s | %s | %s | %s |" % (d["property_id"], s["harness"], res, round(s.get("wall_s", 0) or 0), s.get("ssa_steps", ""), ws))
        else:
            print("| %s | E2 %s | %s | %s | | |" % (d["property_id"], s.get("lemma", s.get("id", "")), s.get("status"), s.get("solver_s", "")))
    print("| %s | **total** | exit-relevant: %d violations, %d known findings, %d not explored | %s | | |" % (
        d["property_id"], (d.get("violations") if isinstance(d.get("violations"), int) else len(d.get("violations", []))), len(d["coverage"].get("known_findings", [])), len(d["coverage"].get("not_explored", [])), round(d.get("wall_s", 0))))

if "--mutants" in sys.argv:
    print()
    print("| mutant | what was changed | check run | /repo HEAD | outcome | by |")
    print("|---|---|---|---|---|---|")
    for d in sorted(glob.glob(V + "/seeded/*/")):
        mid = os.path.basename(d.rstrip("/"))
        meta = json.load(open(d + "meta.json"))
        short = meta["summary"].split(". ")[0][:230]
        rs = sorted(glob.glob(d + "result-*.json"))
        if not rs:
            print("| %s | %s | – | | not run | |" % (mid, short))
        for rf in rs:
            r = json.load(open(rf))
            harn = sorted(set(l.split("harness=")[1].split(" ")[0] for l in r.get("lines", []) if l.strip().startswith("harness=")))
            what = "%s %s%s" % (r["property_checked"], r["tier"], (" --only " + r["only"]) if r.get("only") else "")
            out = {1: "**detected**", 0: "missed", 2: "inconclusive"}.get(r["exit_code"], str(r["exit_code"]))
            print("| %s | %s | %s (%ss) | %s | %s | %s |" % (mid, short, what, r["wall_s"], r.get("repo_head", "?"), out, ", ".join(harn)[:160]))
