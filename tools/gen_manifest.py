#!/usr/bin/env python3
"""Regenerates /verif/MANIFEST.json from the harness registry and the per-property texts below."""
import json
import os
import sys

sys.path.insert(0, os.path.dirname(os.path.abspath(__file__)))
import registry as R

VERIF = os.path.dirname(os.path.dirname(os.path.abspath(__file__)))

TECH = "bounded model checking of the compiled real code (Kani 0.68 -> CBMC 6.11/cadical): symbolic payload choices, preemption sites and interfering operations; counterexamples replayed natively"
TECH_E2 = TECH + "; plus MIR -> SMT-LIB2 lemmas over the 64-bit integer kernels decided by z3 and cvc5"

COMMON_NOTE = ("Assumes: sequential consistency (shim atomics ignore Ordering); schedule class S(d,b) of DESIGN.md section 4 "
               "(suspended operations resume in LIFO order, at most b operations start at preemption points); stated loop bounds with "
               "unwinding assertions on; whole-queue harnesses run with the memory manager replaced by never-reclaiming ledger stubs "
               "(native replay uses the same stubs); futures 0.1 task layer and Mutex/Condvar are harness shims; Kani/CBMC soundness. "
               "A harness that hits its time or memory limit is reported as NOT-EXPLORED (evidence: not_explored) and counts neither as pass nor as violation; "
               "counterexamples are replayed natively (pointer-check ones under valgrind memcheck) before they are reported.")

TEXT = {
    "C01": ("Every harness decides, for ALL solver-chosen preemption sites / interfering operations / prefix lengths within its bounds, that "
            "each accepted id is delivered exactly once per drained stream, never twice, never a refused or unsent id (ledger oracle check_c01), "
            "on mpmc and broadcast, shared and single-consumer and view receivers, N in {1,2}.", "4, 5 (C01)"),
    "C02": ("Acyclicity of the observed precedence relation (producer program order, real-time order of non-overlapping sends and receives, "
            "per-consumer and per-stream receive order) decided for all schedules in the class; two-producer and two-stream scenarios.", "4, 5 (C02)"),
    "C03": ("At every accepted send: accepted-so-far minus receives-begun on every subscribed stream <= N (ledger oracle), refused sends hand back "
            "the same value; sequential fill/drain for requested capacities 0..9; E2 lemmas L1-L4,L6,L7 lift the capacity arithmetic to all 64-bit values.", "5 (C03), 6"),
    "C04": ("Instrumented payload whose Clone and view closure contain a scheduling point: the value must be alive, complete and unchanged before and "
            "after it while sibling consumers and a ring-wrapping producer run there (up to 3 operations at that site).", "5 (C04)"),
    "C05": ("Instance-identity payload with a liveness table: double drop asserted in Drop, leak asserted after teardown of all handles; concurrent "
            "(speculative mpmc read, clone-out broadcast) and in-place view paths.", "5 (C05)"),
    "C06": ("After every concurrent phase a single-threaded probe must accept exactly N minus outstanding further sends and every stream must drain "
            "exactly its outstanding values then report Empty (leaked pins, stale tail cache, mis-registered streams show up here); plus the sibling handle dropped while a consumer is inside clone() (forced-site harnesses).", "4 (forced-site mode), 5 (C06)"),
    "C07": ("End-of-stream may be reported only after every sender's drop has begun and every accepted value was delivered to that stream, and is sticky; "
            "try_recv and try_recv_view paths, one sender (two senders: thorough); plus: the last two sender handles dropped concurrently (every site of one drop) while a futures stream task is parked - it must be notified, else the end is never reported.", "5 (C07)"),
    "C08": ("Blocking recv / recv_view as the preempted operation under BlockingWait, BusyWait and YieldingWait with small spin counts; the other threads run at "
            "every preemption point and inside the shim condvar wait; an exact stuck detector asserts no waiter is left blocked while a value it can take or the end is available; "
            "first send of a sender that fell back from multi- to single-writer mode; E2 lemmas L5/L5n cover wait::check for all 64-bit values.", "4 (blocking operations), 5 (C08)"),
    "C09": ("Symbolic single-threaded histories (solver picks each call) over five alphabets run through the real handles and a reference model; every return value compared.", "5 (C09)"),
    "C10": ("add_stream as the preempted operation (sends, parent receives and a sibling handle of the parent stream receiving meanwhile) and two add_stream calls racing (forced-site loop); the new stream must deliver a gap-free suffix starting "
            "at a position its parent held during the call; parent and other streams keep values and backpressure. The producer-preempted-by-add_stream direction does not finish here (thorough, not explored).", "5 (C10)"),
    "C11": ("Drop / unsubscribe of last and non-last handles as the preempted operation, racing with sends and receives (solver-chosen sites) and with another removal, add_stream, or the other handle of the same stream (second list change at every site of the first, forced-site loop); afterwards the queue accepts "
            "exactly what the remaining streams leave room for; unsubscribe's return value checked.", "4 (forced-site mode), 5 (C11)"),
    "C12": ("Sender handles 1->2 / 2->1 and consumer handles 1->2 / 2->1: the churning actor (clone+use, use+drop) is preempted at every shared access by the traffic of the long-lived handles; consumer handle dropped while its sibling is inside clone(); exactly-once, order, capacity and quiescence oracles. Quick: mpmc; broadcast variants thorough.", "5 (C12)"),
    "C13": ("Every order of dropping all receivers (one or two streams, one or two handles, value queued or not, one or two senders, epoch signal pending or not), then try_send on every sender must hand the value back as Disconnected.", "5 (C13)"),
    "C14": ("Harness executor over the stub task layer: a task whose poll/start_send returned NotReady must have been notified if at quiescence its condition holds "
            "(value available / space freed / other side gone). Quick: start_send on full vs direct try_recv; the notifying poll preempted at every protocol site by a parking start_send; stream removal vs re-polled sink task. The scenarios with a parking poll as injected/preempted operation exhaust memory in CBMC and are thorough / not explored.", "5 (C14)"),
    "C15": ("Symbolic histories of start_send / poll / poll_complete / direct try_send / try_recv / sender drop inside a task against the model: NotReady carries the identical message exactly when full, "
            "None only at the end, no waiting (shim sleep) inside the call.", "5 (C15)"),
    "C16": ("The REAL MemoryManager and ReadCursor driven in the queue's announce/scan/retire pattern with 20 pre-loaded retirements so reclamation cycles run; CBMC pointer checks (use after free, double free, bounds) are the oracle; "
            "an idle registered token must block reclamation.", "5 (C16)"),
    "C17": ("Whole-queue teardown with the REAL memory manager and allocation counters on alloc::allocate/deallocate: after the last handle is dropped (solver-chosen order) every allocation must be returned.", "5 (C17)"),
    "C18": ("Every injected try_send/try_recv/try_recv_view runs alone while the preempted operation is frozen at a solver-chosen shared access: its own shim-step count is bounded (<= 96) and the queue's retry loops carry unwinding assertions; incl. a producer in the multi-writer claim loop reaching a slot pinned by a consumer frozen inside clone().", "5 (C18)"),
}

NA = {
    "C19": "Send/Sync of handle types is decided by rustc's trait solver at type-check time: there is no execution to make symbolic and nothing for an SMT solver to decide that is not a re-model of the compiler (DESIGN.md section 5, C19).",
}


def main():
    props = [json.loads(l) for l in open(os.path.join(VERIF, "properties.jsonl"))]
    claimed = []
    for p in props:
        pid = p["id"]
        if pid in NA:
            continue
        if R.select(pid, "quick"):
            claimed.append(pid)
    checks = []
    for pid in claimed:
        text, ref = TEXT[pid]
        checks.append(dict(
            property_id=pid,
            quick_cmd="./check %s --tier quick" % pid,
            thorough_cmd="./check %s --tier thorough" % pid,
            evidence_file="/verif/evidence/%s.json" % pid,
            replay_cmd_template="./check --replay {path}",
            engine="kani-cbmc" + ("+mir-smt" if pid in R.E2_PROPS else ""),
            level_claimed=dict(category="model_checking", text=text + " Bounded: a pass refutes every case inside the stated bounds and says nothing outside them.",
                               design_ref="DESIGN.md section " + ref),
            level_note=COMMON_NOTE,
            technique=TECH_E2 if pid in R.E2_PROPS else TECH,
        ))
    na = [dict(property_id=k, reason=v) for k, v in NA.items()]
    for p in props:
        if p["id"] not in claimed and p["id"] not in NA:
            na.append(dict(property_id=p["id"], reason="check not built yet (work in progress)"))
    m = dict(
        version=1,
        setup_cmd="./setup.sh",
        hooks=dict(guard="multiqueue2_verif", enable='RUSTFLAGS="--cfg multiqueue2_verif" (set by tools/pipeline.py for cargo kani and for the native replay build; the replay build of whole-queue harnesses adds --cfg multiqueue2_verif_stubmm, which only has an effect under the first guard)',
                   baseline_off_cmd="cd /repo && cargo test --workspace --no-fail-fast --offline",
                   source_commits=["cb03eb5", "d7a1a93", "9710ce8", "71fde00", "bced28f", "5478098"], add_only=True),
        engines=[
            dict(name="kani-cbmc", path="/verif/tools/pipeline.py", serves_properties=claimed,
                 kind_free_text="Kani 0.68 codegen of /verif/harness (path dependency on /repo, guard on, -Z stubbing) -> goto-cc / goto-instrument -> CBMC 6.11 with cadical, per-loop unwind bounds, unwinding assertions; native replay of counterexamples"),
            dict(name="mir-smt", path="/verif/tools/e2.py", serves_properties=sorted(R.E2_PROPS & set(claimed)),
                 kind_free_text="nightly -Zunpretty=mir of /repo -> SMT-LIB2 (64-bit bit-vectors) -> z3 4.8.12 and cvc5 1.0 must agree; translator validated against the native functions on every run"),
        ],
        checks=checks,
        notes="Hook files: src/verif_hooks.rs, src/verif_hooks/*.rs (new); guarded `use`/`mod` lines added to src/{lib,multiqueue,wait,read_cursor,memory,countedindex,atomicsignal,alloc,broadcast,mpmc}.rs. "
              "Known findings: /verif/KNOWN_FINDINGS.txt. Seeded mutants used for self-validation: /verif/seeded/. exit 2 of a check = inconclusive (vacuous harness, loop bound too small, counterexample not reproduced natively, or nothing decided); a harness that only hit its time/memory limit is reported as NOT-EXPLORED and does not change the exit code. Repairs of genuine defects in /repo: commits 872f8a8, b979e17, f2d90da, 77e2390, add4cb6, 7fdee23, 4bcb8f3 (all recorded as fixed: in KNOWN_FINDINGS.txt).",
        not_applicable=na,
    )
    json.dump(m, open(os.path.join(VERIF, "MANIFEST.json"), "w"), indent=1)
    print("claimed:", claimed)
    print("not applicable:", [x["property_id"] for x in na])


if __name__ == "__main__":
    main()
