#!/bin/bash
# development helper: run the quick check of every claimed property one after the other (as `vp check` does),
# print exit code and wall time; evidence is written by the checks themselves
cd /verif
for p in ${@:-C01 C02 C03 C04 C05 C06 C07 C08 C09 C10 C11 C12 C13 C14 C15 C16 C17 C18}; do
  t0=$(date +%s)
  ./check $p --tier quick > /tmp/sweep_$p.log 2>&1
  rc=$?
  echo "$p rc=$rc $(( $(date +%s) - t0 ))s $(grep -c '^VIOLATION' /tmp/sweep_$p.log) violations, $(grep -c '^KNOWN-FINDING' /tmp/sweep_$p.log) known, $(grep -c '^INCONCLUSIVE' /tmp/sweep_$p.log) inconclusive"
done
