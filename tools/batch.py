#!/usr/bin/env python3
"""Development helper: codegen all (or matching) harnesses once, run them in parallel, print a table.
usage: batch.py <build_dir> <jobs> <timeout_s> <regex> [--nocodegen]"""
import sys, os, re, json, glob, time
import concurrent.futures as cf
sys.path.insert(0, os.path.dirname(os.path.abspath(__file__)))
import pipeline as P
import registry as R
import mqv

build, jobs, tmo, rx = sys.argv[1], int(sys.argv[2]), int(sys.argv[3]), sys.argv[4]
if '--nocodegen' not in sys.argv:
    metas, t = P.codegen(build, build + '/codegen.log', None)
    print('codegen %.0fs, %d harnesses' % (t, len(metas)), flush=True)
else:
    metas = {}
    for fn in glob.glob(build + '/kani/x86_64-unknown-linux-gnu/debug/build/mq2_harness/*/out/*.kani-metadata.json'):
        for h in json.load(open(fn))['proof_harnesses']:
            if os.path.exists(h['goto_file']):
                metas[h['pretty_name'].split('::')[-1]] = h
names = sorted(n for n in metas if re.search(rx, n))
print('running', names, flush=True)
def one(n):
    cfg = R.config_for(n)
    cfg['timeout'] = tmo
    return mqv.run_one(n, metas[n], cfg, build + '/work', 'quick')
allres = {}
with cf.ThreadPoolExecutor(max_workers=jobs) as ex:
    futs = {ex.submit(one, n): n for n in names}
    for fu in cf.as_completed(futs):
        r = fu.result()
        allres[r['name']] = dict(status=r['status'], wall_s=round(r.get('wall_s', 0)), stats=r.get('stats'),
                                 fails=[d for (_n, d, _l) in r.get('cls', {}).get('assert_fail', []) + r.get('cls', {}).get('builtin_fail', [])][:6],
                                 unwind=[(d, l.get('file', ''), l.get('line')) for (_n, d, l) in r.get('cls', {}).get('unwind_fail', [])][:4],
                                 cover_unsat=r.get('cls', {}).get('cover_unsat', []))
        json.dump(allres, open(build + '/results.json', 'w'), indent=1)
        c = r.get('cls', {})
        st = r.get('stats', {})
        print('%-28s %-8s wall=%5.0fs symex=%s solver=%s steps=%s fail=%s unwind=%s cover_sat=%s cover_unsat=%s %s' % (
            r['name'], r['status'], r.get('wall_s', 0), st.get('symex_s'), st.get('solver_s'), st.get('steps'),
            [d for (_n, d, _l) in c.get('assert_fail', []) + c.get('builtin_fail', [])][:4],
            [(d, l.get('file', '')[-30:], l.get('line')) for (_n, d, l) in c.get('unwind_fail', [])][:3],
            c.get('cover_sat'), c.get('cover_unsat'), r.get('error', '')[:300]), flush=True)
