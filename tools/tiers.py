#!/usr/bin/env python3
"""Development helper: given batch results (harness -> status, wall_s), show per property the
quick set, its max/sum wall time, and harnesses that should move to thorough."""
import json, sys, os
sys.path.insert(0, os.path.dirname(os.path.abspath(__file__)))
import registry as R
res = {}
for f in sys.argv[1:]:
    res.update(json.load(open(f)))
props = sorted(set(h["primary"] for h in R.HARNESSES.values()))
for p in props:
    q = R.select(p, "quick")
    rows = []
    for n in sorted(q):
        r = res.get(n)
        rows.append((n, r["status"] if r else "?", r["wall_s"] if r else -1, (r or {}).get("fails", [])[:1], (r or {}).get("unwind", [])[:1]))
    walls = [w for (_n, _s, w, _f, _u) in rows if w > 0]
    print("%s quick: %d harnesses, max %ss, sum %ss" % (p, len(rows), max(walls) if walls else "?", sum(walls)))
    for row in rows:
        print("    %-34s %-8s %5s %s %s" % row)
