"""Kani/CBMC pipeline used by every E1 check (DESIGN.md section 3).

codegen:  cargo kani --only-codegen (guard on, stubbing on) over /verif/harness, which depends on
          /repo by path - so the goto binaries are regenerated from /repo's working tree.
per harness: goto-cc link -> goto-cc --function -> goto-instrument (optional function-pointer
          restriction / body removal, --add-library, --generate-function-body, --drop-unused,
          --ensure-one-backedge-per-target) -> cbmc with Kani's own flags plus per-loop unwind
          bounds, unwinding assertions and JSON output.
"""
import json
import os
import re
import resource
import shutil
import subprocess
import sys
import time

VERIF = os.path.dirname(os.path.dirname(os.path.abspath(__file__)))
HARNESS_DIR = os.path.join(VERIF, "harness")
# The registered checks always build against /repo.  For self-validation with seeded mutants
# (tools/mutant_matrix.py) MQV_REPO points at a scratch worktree instead, so that several mutants
# can be evaluated in parallel without touching /repo.
REPO = os.environ.get("MQV_REPO", "/repo")


def harness_dir_for(build_dir):
    """/verif/harness itself, or (MQV_REPO set) a copy whose path dependency is rewritten"""
    if REPO == "/repo":
        return HARNESS_DIR
    dst = os.path.join(build_dir, "harness_copy")
    if not os.path.exists(dst):
        shutil.copytree(HARNESS_DIR, dst, ignore=shutil.ignore_patterns("target"))
        ct = os.path.join(dst, "Cargo.toml")
        txt = open(ct).read().replace('path = "/repo"', 'path = "%s"' % REPO).replace('path = "../stubs/', 'path = "%s/stubs/' % VERIF)
        open(ct, "w").write(txt)
    return dst
KANI_HOME = os.path.expanduser("~/.kani/kani-0.68.0")
KANI_LIB_C = os.path.join(KANI_HOME, "library/kani/kani_lib.c")

CBMC_BASE_FLAGS = [
    "--no-malloc-may-fail", "--no-undefined-shift-check", "--no-signed-overflow-check",
    "--nan-check", "--no-self-loops-to-assumptions", "--no-pointer-primitive-check",
    "--object-bits", "16", "--sat-solver", "cadical", "--slice-formula",
    # the Arc<MultiQueue> heap object is a >64-byte byte array; without this symex keeps it as an
    # array (no constant propagation) and everything is 5-50x slower (DESIGN.md section 2)
    "--max-field-sensitivity-array-size", "2048",
]


def env_for_build():
    e = dict(os.environ)
    e["RUSTFLAGS"] = "--cfg multiqueue2_verif" + (" --cfg mq_smoke" if os.environ.get("MQV_SMOKE") else "")
    e["CARGO_NET_OFFLINE"] = "true"
    return e


def run(cmd, **kw):
    return subprocess.run(cmd, stdout=subprocess.PIPE, stderr=subprocess.STDOUT, text=True, **kw)


def codegen(build_dir, log_path, harnesses=None):
    """Compile the selected harnesses of /verif/harness (all if None) to goto binaries.
    Returns ({harness_name: kani metadata}, seconds)."""
    os.makedirs(build_dir, exist_ok=True)
    t0 = time.time()
    cmd = ["cargo", "kani", "-Z", "stubbing", "--only-codegen", "--no-assertion-reach-checks",
           "--target-dir", build_dir]
    if harnesses:
        cmd.append("--exact")
        for h in harnesses:
            cmd += ["--harness", R_path(h)]
    p = run(cmd, cwd=harness_dir_for(build_dir), env=env_for_build())
    with open(log_path, "w") as f:
        f.write(p.stdout)
    if p.returncode != 0:
        raise RuntimeError("kani codegen failed, see " + log_path + "\n" + p.stdout[-3000:])
    metas = {}
    for root, _dirs, files in os.walk(build_dir):
        for fn in files:
            if fn.endswith(".kani-metadata.json") and fn.startswith("mq2_harness"):
                with open(os.path.join(root, fn)) as f:
                    md = json.load(f)
                for h in md.get("proof_harnesses", []):
                    name = h["pretty_name"].split("::")[-1]
                    if os.path.exists(h["goto_file"]):
                        metas[name] = h
    return metas, time.time() - t0


def R_path(h):
    import registry
    return registry.full_path(h)


def symbols_matching(goto_file, pattern):
    """Function symbols of a goto binary whose name matches the regex."""
    p = run(["goto-instrument", "--list-goto-functions", goto_file])
    out = []
    for line in p.stdout.splitlines():
        m = re.match(r"^(.*) /\* (\S+) \*/\s*$", line)
        name = None
        if m:
            name = m.group(2)
        else:
            m = re.match(r"^(_R\S+)\s*$", line)
            if m:
                name = m.group(1)
        if name and re.search(pattern, name):
            out.append(name)
    return sorted(set(out))


def prepare(meta, workdir, fp_restrict=None, remove_bodies=None):
    """Link + instrument one harness. Returns path of the final goto binary."""
    os.makedirs(workdir, exist_ok=True)
    name = meta["pretty_name"].split("::")[-1]
    out = os.path.join(workdir, name + ".out")
    steps = []

    def step(cmd):
        p = run(cmd)
        steps.append((" ".join(cmd), p.returncode))
        if p.returncode != 0:
            raise RuntimeError("pipeline step failed: %s\n%s" % (" ".join(cmd), p.stdout[-3000:]))
        return p.stdout

    step(["goto-cc", meta["goto_file"], KANI_LIB_C, "-o", out])
    step(["goto-cc", out, "--function", meta["mangled_name"], "-o", out])
    if remove_bodies:
        for pat in remove_bodies:
            for sym in symbols_matching(out, pat):
                step(["goto-instrument", "--remove-function-body", sym, out, out])
    if fp_restrict:
        # fp_restrict: list of (caller regex, [target regex...])
        for caller_pat, target_pats in fp_restrict:
            callers = symbols_matching(out, caller_pat)
            targets = []
            for tp in target_pats:
                targets += symbols_matching(out, tp)
            for c in callers:
                if targets:
                    step(["goto-instrument", "--restrict-function-pointer",
                          "%s.function_pointer_call.1/%s" % (c, ",".join(sorted(set(targets)))), out, out])
    step(["goto-instrument", "--add-library", "--no-malloc-may-fail", out, out])
    step(["goto-instrument", "--generate-function-body-options", "assert-false-assume-false",
          "--generate-function-body", ".*", "--drop-unused-functions", out, out])
    step(["goto-instrument", "--ensure-one-backedge-per-target", out, out])
    return out, steps


def show_loops(goto_file):
    """[(loop_id, file, line, function)]"""
    p = run(["goto-instrument", "--show-loops", "--json-ui", goto_file])
    try:
        data = json.loads(p.stdout)
    except Exception:
        return []
    loops = []
    for item in data:
        if isinstance(item, dict) and "loops" in item:
            for l in item["loops"]:
                sl = l.get("sourceLocation", {})
                loops.append((l["name"], sl.get("file", ""), sl.get("line", ""), sl.get("function", "")))
    return loops


def unwindset_for(loops, rules, default):
    """rules: list of (regex over 'function @ file:line', bound). First match wins."""
    us = []
    table = []
    for (lid, f, line, fn) in loops:
        key = "%s @ %s:%s" % (fn, f, line)
        bound = None
        for pat, b in rules:
            if re.search(pat, key):
                bound = b
                break
        if bound is not None:
            us.append("%s:%d" % (lid, bound))
        table.append((lid, key, bound if bound is not None else default))
    return us, table


def _limit_mem(gb):
    def f():
        lim = int(gb * (1 << 30))
        resource.setrlimit(resource.RLIMIT_AS, (lim, lim))
    return f


def run_cbmc(goto_file, unwind, unwindset, timeout_s, mem_gb, log_path, extra=None, trace=False):
    cmd = ["cbmc"] + CBMC_BASE_FLAGS + [goto_file, "--json-ui", "--unwinding-assertions", "--verbosity", "8"]
    if unwind is not None:
        cmd += ["--unwind", str(unwind)]
    if unwindset:
        cmd += ["--unwindset", ",".join(unwindset)]
    if trace:
        cmd += ["--trace"]
    if extra:
        cmd += extra
    t0 = time.time()
    status = "done"
    try:
        with open(log_path, "w") as lf:
            p = subprocess.run(cmd, stdout=lf, stderr=subprocess.STDOUT, timeout=timeout_s,
                               preexec_fn=_limit_mem(mem_gb))
        rc = p.returncode
    except subprocess.TimeoutExpired:
        status = "timeout"
        rc = -1
    wall = time.time() - t0
    res = parse_cbmc_json(log_path) if status == "done" else {"props": [], "messages": [], "ok": False}
    res["cmd"] = " ".join(cmd)
    res["wall_s"] = wall
    res["rc"] = rc
    if status == "timeout":
        res["status"] = "timeout"
    elif not res.get("ok") or any(p.get("status") == "ERROR" for p in res["props"]):
        txt = " ".join(res.get("messages") or []).lower()
        try:
            with open(log_path, "rb") as lf:
                lf.seek(max(0, os.path.getsize(log_path) - 4000))
                txt += lf.read().decode("utf-8", "replace").lower()
        except OSError:
            pass
        if "out of memory" in txt or "bad_alloc" in txt or rc in (-9, -6, 134, 137):
            # address-space limit of this job, the solver's own allocation failure, or the kernel's OOM killer
            res["status"] = "memout"
            res["messages"] = (res.get("messages") or []) + ["cbmc ran out of memory (limit %s GB, rc %s)" % (mem_gb, rc)]
        else:
            res["status"] = "error"
            res["messages"] = (res.get("messages") or []) + ["cbmc reported status ERROR (solver failure)"]
    else:
        res["status"] = "done"
    return res


def parse_cbmc_json(path):
    """Parse cbmc --json-ui output. Returns dict(props=[...], messages=[...], ok=bool, stats)."""
    try:
        with open(path) as f:
            txt = f.read()
        data = json.loads(txt)
    except Exception as e:
        # truncated output (killed / out of memory)
        return {"props": [], "messages": ["unparsable cbmc output: %s" % e], "ok": False}
    props = []
    msgs = []
    ok = False
    stats = {}
    for item in data:
        if not isinstance(item, dict):
            continue
        if "result" in item:
            ok = True
            for r in item["result"]:
                props.append(r)
        if "messageText" in item:
            t = item["messageText"]
            m = re.search(r"size of program expression: (\d+) steps", t)
            if m:
                stats["steps"] = int(m.group(1))
            m = re.search(r"(\d+) variables, (\d+) clauses", t)
            if m:
                stats["variables"] = int(m.group(1))
                stats["clauses"] = int(m.group(2))
            m = re.search(r"Runtime Solver: ([0-9.e+-]+)s", t)
            if m:
                stats["solver_s"] = stats.get("solver_s", 0.0) + float(m.group(1))
            m = re.search(r"Runtime Symex: ([0-9.e+-]+)s", t)
            if m:
                stats["symex_s"] = float(m.group(1))
            if item.get("messageType") == "ERROR":
                msgs.append(t)
        if "cProverStatus" in item:
            stats["cprover_status"] = item["cProverStatus"]
    return {"props": props, "messages": msgs, "ok": ok, "stats": stats}


def classify(props):
    """Split cbmc properties into user assertions / covers / unwinding / builtin checks."""
    out = {"assert_fail": [], "assert_ok": 0, "cover_sat": [], "cover_unsat": [], "unwind_fail": [],
           "builtin_fail": [], "builtin_ok": 0, "reach": 0, "total": 0}
    for r in props:
        out["total"] += 1
        if r.get("status") not in ("SUCCESS", "FAILURE", "SATISFIED", "UNSATISFIED"):
            # solver error / out of memory: nothing was decided
            out["errors"] = out.get("errors", 0) + 1
            continue
        name = r.get("property", "")
        desc = r.get("description", "")
        status = r.get("status", "")
        pclass = name.rsplit(".", 2)[-2] if name.count(".") >= 2 else ""
        if "KANI_CHECK_ID" in desc or "KANI_REACHABILITY" in desc.upper():
            out["reach"] += 1
            continue
        if pclass == "cover" or desc.startswith("cover "):
            # a cover property "fails" when it is satisfiable
            (out["cover_sat"] if status in ("FAILURE", "SATISFIED") else out["cover_unsat"]).append(desc)
            continue
        if pclass in ("unwind", "recursion") or "unwinding assertion" in desc:
            if status == "FAILURE":
                out["unwind_fail"].append((name, desc, r.get("sourceLocation", {})))
            continue
        is_user = pclass == "assertion" or re.match(r"^\"?C\d\d", desc) is not None
        if status == "FAILURE":
            (out["assert_fail"] if is_user else out["builtin_fail"]).append((name, desc, r.get("sourceLocation", {})))
        else:
            if is_user:
                out["assert_ok"] += 1
            else:
                out["builtin_ok"] += 1
    return out


def extract_nondet(trace):
    """Values returned by kani::any() in execution order (Kani's concrete-playback rule):
    assignments whose lhs is a symex return value inside kani::any_raw_*."""
    vals = []
    for st in trace:
        if st.get("stepType") != "assignment":
            continue
        lhs = st.get("lhs", "")
        fn = st.get("sourceLocation", {}).get("function", "")
        if not lhs.startswith("goto_symex$$return_value"):
            continue
        # exactly Kani's rule: the assignment sits inside kani::any_raw_internal (one per any())
        if not fn.startswith("kani::any_raw_"):
            continue
        v = st.get("value", {})
        b = v.get("binary")
        if b is None:
            continue
        width = len(b)
        n = int(b, 2)
        vals.append(list(n.to_bytes((width + 7) // 8, "little")))
    return vals
