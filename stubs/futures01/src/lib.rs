//! Stub of the part of `futures 0.1` that multiqueue2's library uses.
//!
//! The task layer is the verification harness's executor: `task::current()` returns a handle
//! carrying the id the harness set with `task::verif::set_current`, and `Task::notify()` counts
//! notifications per id so that a harness can tell whether a parked task was woken.

#[derive(Copy, Clone, Debug, PartialEq)]
pub enum Async<T> {
    Ready(T),
    NotReady,
}

impl<T> Async<T> {
    pub fn is_ready(&self) -> bool {
        match *self {
            Async::Ready(_) => true,
            Async::NotReady => false,
        }
    }
    pub fn is_not_ready(&self) -> bool {
        !self.is_ready()
    }
}

#[derive(Copy, Clone, Debug, PartialEq)]
pub enum AsyncSink<T> {
    Ready,
    NotReady(T),
}

impl<T> AsyncSink<T> {
    pub fn is_ready(&self) -> bool {
        match *self {
            AsyncSink::Ready => true,
            AsyncSink::NotReady(_) => false,
        }
    }
    pub fn is_not_ready(&self) -> bool {
        !self.is_ready()
    }
}

pub type Poll<T, E> = Result<Async<T>, E>;
pub type StartSend<T, E> = Result<AsyncSink<T>, E>;

pub trait Stream {
    type Item;
    type Error;
    fn poll(&mut self) -> Poll<Option<Self::Item>, Self::Error>;
}

pub trait Sink {
    type SinkItem;
    type SinkError;
    fn start_send(&mut self, item: Self::SinkItem) -> StartSend<Self::SinkItem, Self::SinkError>;
    fn poll_complete(&mut self) -> Poll<(), Self::SinkError>;
    fn close(&mut self) -> Poll<(), Self::SinkError> {
        self.poll_complete()
    }
}

pub mod task {
    pub const MAX_TASKS: usize = 8;

    /// Handle to a task; `id` 0 means "taken outside any task" (the real crate panics there).
    #[derive(Clone, Debug)]
    pub struct Task {
        pub id: usize,
    }

    pub struct Table {
        pub current: usize,
        pub notified: [usize; MAX_TASKS],
        pub current_calls: usize,
        pub outside_task: bool,
    }

    pub static mut TABLE: Table = Table {
        current: 0,
        notified: [0; MAX_TASKS],
        current_calls: 0,
        outside_task: false,
    };

    #[inline(always)]
    fn table() -> &'static mut Table {
        unsafe { &mut *std::ptr::addr_of_mut!(TABLE) }
    }

    pub fn current() -> Task {
        let t = table();
        t.current_calls += 1;
        if t.current == 0 {
            t.outside_task = true;
        }
        Task { id: t.current }
    }

    impl Task {
        pub fn notify(&self) {
            let t = table();
            if self.id < MAX_TASKS {
                t.notified[self.id] += 1;
            }
        }
    }

    /// Harness side of the task layer.
    pub mod verif {
        use super::table;

        pub fn set_current(id: usize) {
            table().current = id;
        }
        pub fn current_id() -> usize {
            table().current
        }
        pub fn notify_count(id: usize) -> usize {
            table().notified[id]
        }
        pub fn current_calls() -> usize {
            table().current_calls
        }
        pub fn taken_outside_task() -> bool {
            table().outside_task
        }
    }
}
