//! Native stand-in for the `kani` crate, used only to replay solver counterexamples.
//!
//! `any()` hands out the values recorded from a CBMC trace (one little-endian byte vector per
//! call, in call order); `assume(false)` aborts the replay as *not reproducing* (the recorded
//! path never violates an assumption, so reaching one means encoder and native run diverged).

use std::sync::Mutex;

pub struct State {
    pub values: Vec<Vec<u8>>,
    pub next: usize,
    pub exhausted: bool,
    pub covers: Vec<&'static str>,
}

pub static STATE: Mutex<State> = Mutex::new(State {
    values: Vec::new(),
    next: 0,
    exhausted: false,
    covers: Vec::new(),
});

pub const ASSUME_MARKER: &str = "KANI-REPLAY-ASSUME-FAILED";

pub fn load(values: Vec<Vec<u8>>) {
    let mut s = STATE.lock().unwrap();
    s.values = values;
    s.next = 0;
    s.exhausted = false;
    s.covers.clear();
}

fn next_bytes(n: usize) -> Vec<u8> {
    let mut s = STATE.lock().unwrap();
    let i = s.next;
    s.next += 1;
    let mut out = if i < s.values.len() {
        s.values[i].clone()
    } else {
        s.exhausted = true;
        Vec::new()
    };
    out.resize(n, 0);
    out
}

pub trait Arbitrary: Sized {
    fn any() -> Self;
}

macro_rules! int_arbitrary {
    ($($t:ty),*) => {$(
        impl Arbitrary for $t {
            fn any() -> Self {
                let b = next_bytes(std::mem::size_of::<$t>());
                let mut a = [0u8; std::mem::size_of::<$t>()];
                a.copy_from_slice(&b);
                <$t>::from_le_bytes(a)
            }
        }
    )*};
}
int_arbitrary!(u8, u16, u32, u64, usize, i8, i16, i32, i64, isize);

impl Arbitrary for bool {
    fn any() -> Self {
        next_bytes(1)[0] & 1 == 1
    }
}

pub fn any<T: Arbitrary>() -> T {
    T::any()
}

pub fn assume(cond: bool) {
    if !cond {
        panic!("{}", ASSUME_MARKER);
    }
}

pub fn cover_hit(name: &'static str) {
    STATE.lock().unwrap().covers.push(name);
}

#[macro_export]
macro_rules! cover {
    ($cond:expr, $msg:literal) => {
        if $cond {
            $crate::cover_hit($msg);
        }
    };
    ($cond:expr) => {
        if $cond {
            $crate::cover_hit(stringify!($cond));
        }
    };
}
