#!/bin/bash
# Run once after a fresh restore, offline: compile-check everything the checks build from files on disk.
set -e
cd "$(dirname "$0")"
export CARGO_NET_OFFLINE=true
mkdir -p .build evidence replays
# harness crate + stubs (native, guard on) - also resolves the lock file offline
(cd harness && RUSTFLAGS="--cfg multiqueue2_verif" cargo build --offline --target-dir ../.build/setup-target >/dev/null 2>../.build/setup.log) || { tail -30 .build/setup.log; exit 1; }
rm -rf .build/setup-target
python3 -c "import sys; sys.path.insert(0,'tools'); import registry, pipeline, mqv, e2; print('registry: %d harnesses' % len(registry.HARNESSES))"
cbmc --version >/dev/null
cargo kani --version >/dev/null
z3 --version >/dev/null
cvc5 --version >/dev/null
valgrind --version >/dev/null 2>&1 || echo "note: valgrind missing - pointer-check counterexamples outside C16/C17 cannot be confirmed natively"
echo setup ok
